"""C18 — source files are selected by the documented build constraints.
Proof: GV.Props.C18 (go/build's matcher under GopherJS's configuration = the documented tag set, for all
tags / expressions / user tag lists; cgo never; no later release tags; std as js/wasm) + GV.Props.C18Env
(facts re-extracted from the code on every run equal the documented configuration).
Tie: the real build context (build.NewBuildContext(...).Import) on generated package directories and on
GOROOT packages vs the Lean driver."""
import json
import os

from . import common as C

THEOREMS = ["matchTag_documented", "satisfiedB_iff", "eval_documented", "no_later_release", "release_upto", "cgo_tag",
            "cgo_files_never", "cgo_files_never_std", "selected_iff", "user_tag_irrelevant", "std_wasm",
            "std_not_ecmascript", "user_not_wasm"]
ENV_THEOREMS = ["env_documented", "release_tags_exact", "build_tags_exact", "tool_tags_empty"]

VOCAB = ["js", "ecmascript", "wasm", "gc", "gccgo", "gopherjs", "netgo", "purego", "math_big_pure_go", "cgo", "linux", "unix",
         "windows", "amd64", "go1.1", "go1.19", "go1.20", "go1.21", "go1.23", "go1.99", "ignore", "foo", "bar", "darwin",
         "android", "solaris", "race", "boringcrypto", "goexperiment.boringcrypto", "osusergo", "gopherjs2",
         "go1.2", "go1.3", "go1.5", "go1.9", "go1.10", "go1.12", "go1.18", "go1.22", "go1.100", "go1.01", "go2.0", "go1"]
ALWAYS = ["js", "ecmascript", "gc", "netgo", "purego", "math_big_pure_go", "gopherjs", "wasm", "go1.20", "go1.21", "cgo"]
# adversarial user tags: look-alikes of the always-on tags (prefix/suffix/substring/case), duplicates of them
LOOKALIKE = sorted({f(t) for t in ALWAYS for f in (lambda t: t + "_debug", lambda t: "no" + t, lambda t: "my_" + t + "_impl", lambda t: t + "2",
                                                 lambda t: t[:-1], lambda t: t.capitalize(), lambda t: t)})
USER_TAGS_BASE = ["foo", "bar", "linux", "wasm", "go1.21", "cgo", "ecmascript", "unix", "amd64", "goexperiment.boringcrypto", "ignore", "gccgo"]
SUFFIXES = ["", "_js", "_wasm", "_js_wasm", "_linux", "_linux_amd64", "_amd64", "_ecmascript", "_js_ecmascript", "_unix", "_test",
            "_js_test", "_wasm_test", "_windows_test", "_foo", "_js_foo", "_", "__js", "_js_", "_darwin_arm64", "_plan9", "_gopherjs",
            "_wasip1", "_amd64_js", "_js_amd64", "_test_js"]
STD_PKGS = ["math", "os", "syscall", "internal/cpu", "sync/atomic", "time", "unicode/utf8", "internal/bytealg", "net", "crypto/rand",
            "os/user", "internal/poll", "math/big", "io/fs", "os/signal", "internal/syscall/unix", "crypto/internal/nistec",
            "hash/crc32", "internal/goos", "internal/goarch", "strings", "bytes", "reflect", "math/bits", "path/filepath",
            "os/exec", "internal/testlog", "crypto/subtle", "mime", "log/syslog", "plugin", "go/build"]
# packages whose file lists are edited after loading (build/context.go applyPostloadTweaks) are not in the corpus
POSTLOAD_TWEAKED = ["runtime", "runtime/pprof", "sync", "syscall/js"]


USER_TAGS = USER_TAGS_BASE + LOOKALIKE


def tag_tok(t):
    if t.startswith("go1.") and t[4:].isdigit() and str(int(t[4:])) == t[4:]:
        return "r:" + t[4:]
    return "t:" + t


def gen_expr(rng, depth):
    if depth == 0 or rng.random() < 0.3:
        return ("tag", rng.choice(VOCAB) if rng.random() < 0.85 else rng.choice(LOOKALIKE))
    k = rng.random()
    if k < 0.3:
        return ("not", gen_expr(rng, depth - 1))
    if k < 0.65:
        return ("and", gen_expr(rng, depth - 1), gen_expr(rng, depth - 1))
    return ("or", gen_expr(rng, depth - 1), gen_expr(rng, depth - 1))


def render(e):
    if e[0] == "tag":
        return e[1]
    if e[0] == "not":
        return "!(" + render(e[1]) + ")" if e[1][0] != "tag" else "!" + e[1][1]
    op = " && " if e[0] == "and" else " || "
    return "(" + render(e[1]) + op + render(e[2]) + ")"


def gen_plus_line(rng):
    # legacy: space = OR, comma = AND, ! = NOT
    alts = []
    for _ in range(rng.randrange(1, 4)):
        terms = []
        for _ in range(rng.randrange(1, 4)):
            terms.append(("!" if rng.random() < 0.3 else "") + rng.choice([v for v in VOCAB if v != "boringcrypto"]))
        alts.append(",".join(terms))
    return "// +build " + " ".join(alts)


def gen_file(rng, idx):
    suf = rng.choice(SUFFIXES)
    base = rng.choice(["f", "file", "x", "linux", "js", "wasm", "a_b"]) + str(idx)
    if rng.random() < 0.06:
        base = rng.choice(["_", "."]) + base
    kind = rng.random()
    if kind < 0.15:
        return base + suf + ".inc.js", "// js %d\n" % idx
    if kind < 0.18:
        return base + suf + ".txt", "text"
    header = ""
    k = rng.random()
    if k < 0.5:
        header = "//go:build " + render(gen_expr(rng, rng.randrange(0, 4))) + "\n"
        if rng.random() < 0.15:
            header += gen_plus_line(rng) + "\n"      # both present: //go:build controls
    elif k < 0.75:
        header = "\n".join(gen_plus_line(rng) for _ in range(rng.randrange(1, 3))) + "\n"
    body = "package p\n"
    if rng.random() < 0.08 and not suf.endswith("_test"):
        body += 'import "C"\n'
    if rng.random() < 0.3:
        header = "// Copyright\n\n" + header
    return base + suf + ".go", (header + "\n" if header else "") + body


def gen_jobs(rng, n):
    jobs = []
    for i in range(n):
        tags = [t for t in USER_TAGS_BASE if rng.random() < 0.2] + [t for t in LOOKALIKE if rng.random() < 0.04]
        rng.shuffle(tags)
        files = {}
        for k in range(rng.randrange(3, 12)):
            name, content = gen_file(rng, k)
            files[name] = content
        # some files are symlinks to regular files elsewhere (go/build and the .inc.js lister must follow them)
        links = [n for n in files if rng.random() < 0.12]
        jobs.append({"id": "g%d" % i, "tags": tags, "files": files, "links": links})
    return jobs


def write_generated(facts):
    f = facts["facts"]
    gdir = os.path.join(C.LEAN, "GV", "Generated")
    os.makedirs(gdir, exist_ok=True)
    path = os.path.join(gdir, "BuildEnv.lean")

    def strs(l):
        return "[" + ", ".join(json.dumps(x) for x in (l or [])) + "]"
    rel = f["ReleaseTags"] or []
    src = ("import GV.Model.BuildTags\n"
           "/-! GENERATED by checks/c18.py from build.VerifGoCtx(build.DefaultEnv()) of the working tree; do not edit. -/\n"
           "namespace GV.Generated\nopen GV.BuildTags\n"
           "def buildEnv : Facts :=\n  { goos := %s, goarch := %s, compiler := %s, cgoEnabled := %s,\n"
           "    defaultTags := %s, goVersion := %d, stdGoos := %s, stdGoarch := %s }\n"
           "def releaseTagNames : List String := %s\n"
           "def buildTagsNoUser : List String := %s\n"
           "def toolTags : List String := %s\n"
           "end GV.Generated\n") % (
        json.dumps(f["GOOS"]), json.dumps(f["GOARCH"]), json.dumps(f["Compiler"]), "true" if f["CgoEnabled"] else "false",
        strs(f["DefaultBuildTags"]), len(rel), json.dumps(facts["std_goos"]), json.dumps(facts["std_goarch"]),
        strs(rel), strs(f["BuildTags"]), strs(f["ToolTags"]))
    if os.path.exists(path):
        os.unlink(path)
    open(path, "w").write(src)
    return src


def model_lines(kind, tags, desc):
    ops = []
    names = []
    tg = ",".join(tag_tok(t) for t in tags) if tags else "-"
    for d in desc:
        p = d.split(" ")
        name = p[0]
        if " " in name:
            continue
        ops.append("bt sel %s %s %s" % (kind, tg, d))
        names.append(name)
    return names, ops


def select_pass(chk, alljobs, tie, env):
    """runs the real Import on every job and compares the selection of every file with the model"""
    lines = [json.dumps(j) for j in alljobs]
    outs = C.run_gvh_lines(["select"], lines, name="gvh_c18", extra_env=env, timeout=3000)
    ops, impl, groups = [], [], []
    for j, o in zip(alljobs, outs):
        r = json.loads(o)
        kind = "std" if "std" in j else "user"
        if r.get("err") and r["err"] != "nogo" and not r.get("desc"):
            if "std" in j:
                continue   # package not present in this GOROOT
            raise RuntimeError("import failed: %s" % r["err"])
        if r.get("err") and r["err"] != "nogo":
            raise RuntimeError("import failed: %s" % r["err"])
        names, mops = model_lines(kind, j.get("tags", []), r.get("desc") or [])
        go = set(r.get("go") or [])
        js = set(r.get("js") or [])
        start = len(ops)
        for nm, op in zip(names, mops):
            ops.append(op)
            impl.append("go=%d js=%d" % (1 if nm in go else 0, 1 if nm in js else 0))
        groups.append((start, len(ops), r.get("err") == "nogo"))
        chk.count("packages:" + kind + (":nogo" if r.get("err") == "nogo" else ""))
        for nm in j.get("links", []):
            chk.count("symlinked:" + ("incjs" if nm.endswith(".inc.js") else ("go" if nm.endswith(".go") else "other")))
    # shadow ops: the same files with the _test flag cleared tell whether a test file would build, which decides
    # whether the directory is a package at all (go/build NoGoError => nothing of the directory is used, incl. .inc.js)
    def untest(op):
        p = op.split(" ")
        p[8] = "0"
        return " ".join(p)
    shadow = C.run_driver("C18", [untest(o) for o in ops])
    model = C.run_driver("C18", ops)
    for (s0, e0, nogo) in groups:
        selected_dir = any(a.startswith("go=1") for a in shadow[s0:e0])
        if not selected_dir:
            for i in range(s0, e0):
                model[i] = "go=0 js=0"
        if nogo == selected_dir:
            chk.add_tie_break(tie + "-dir", "directory of %s" % ops[s0] if e0 > s0 else "empty", "nogo=%s" % nogo, "selected=%s" % selected_dir)

    def kind(op, ans):
        p = op.split(" ")
        return "%s:%s:%s" % (p[2], "gobuild" if p[11] != "-" else ("plusbuild" if p[12] != "-" else "plain"), ans)

    def nontrivial(op, ans):
        return True

    chk.compare(tie, ops, impl, model, kind=kind)


# --- the command line: `gopherjs build --tags "..."` and what really ends up in the program ---------------------------------
CLI_TAGS = ["foo", "bar", "api.v2", "v2", "api", "x.y.z", "go1.21", "go1.99", "feature_1", "f1", "Ünïcode", "linux", "wasm",
            "cgo", "gopherjs_debug", "nonetgo", "osusergo", "purego2"]


def gen_cli_program(rng, idx):
    """a main package whose files register themselves in init(); every file carries a constraint over the CLI tag vocabulary,
    the always-on tags and the environment tags. Returns files, user tag list."""
    vocab = CLI_TAGS + ["js", "ecmascript", "gc", "gopherjs", "netgo", "purego", "math_big_pure_go", "go1.20", "go1.1"]
    # release-tag look-alikes stay in the expression vocabulary but are never SUPPLIED: a satisfied `//go:build go1.N` line also
    # sets the file's language version, and go/types rejects files that ask for a newer Go than the toolchain
    tags = [t for t in CLI_TAGS if rng.random() < 0.3 and not t.startswith("go1.")]
    if not any("." in t for t in tags) and rng.random() < 0.7:
        tags.append(rng.choice(["api.v2", "x.y.z"]))
    rng.shuffle(tags)
    files = {"go.mod": "module c18cli\n\ngo 1.20\n",
             "main.go": "package main\n\nvar reg []string\n\nfunc main() {\n\tfor _, r := range reg {\n\t\tprintln(r)\n\t}\n\tprintln(\"end\")\n}\n"}

    def expr(depth):
        if depth == 0 or rng.random() < 0.35:
            return ("tag", rng.choice(vocab))
        k = rng.random()
        if k < 0.3:
            return ("not", expr(depth - 1))
        return ("and" if k < 0.65 else "or", expr(depth - 1), expr(depth - 1))
    for k in range(rng.randrange(5, 11)):
        suf = rng.choice(["", "", "", "_js", "_wasm", "_linux", "_ecmascript", "_js_wasm", "_foo", "_api"])
        name = "f%d%s.go" % (k, suf)
        e = expr(rng.randrange(0, 3))
        hdr = "//go:build %s\n\n" % render(e) if rng.random() < 0.85 else ""
        files[name] = hdr + "package main\n\nfunc init() { reg = append(reg, \"%s\") }\n" % name
    # discriminators: every supplied tag as a whole must count, its fragments must not (unless supplied themselves)
    import re as _re
    k = 100
    for t in tags:
        files["d%d.go" % k] = "//go:build %s\n\npackage main\n\nfunc init() { reg = append(reg, \"d%d.go\") }\n" % (t, k)
        k += 1
        for frag in _re.split(r"[^0-9A-Za-z_]+", t):
            if frag and frag != t and not frag[0].isdigit():
                files["d%d.go" % k] = "//go:build %s\n\npackage main\n\nfunc init() { reg = append(reg, \"d%d.go\") }\n" % (frag, k)
                k += 1
    return files, tags


def cli_pass(chk, tier, env):
    """Builds generated main packages with the real command line (`gopherjs build --tags "<space separated>"`), runs them and
    reads which files registered themselves; the same directory goes through the Import harness for the file descriptions the
    model needs. CLI-observed selection vs model, per file."""
    import shutil, subprocess
    from . import c17
    cli = c17.build_cli()
    n = 16 if tier == "thorough" else 5
    sc = C.scratch("gvc18cli")
    try:
        progs_ = [gen_cli_program(chk.rng, i) for i in range(n)]
        jobs = [{"id": "c%d" % i, "tags": tags, "files": {k: v for k, v in files.items() if k != "go.mod"}} for i, (files, tags) in enumerate(progs_)]
        outs = C.run_gvh_lines(["select"], [json.dumps(j) for j in jobs], name="gvh_c18", extra_env=env, timeout=1200)
        ops, impl = [], []
        for i, ((files, tags), o) in enumerate(zip(progs_, outs)):
            r = json.loads(o)
            d = os.path.join(sc, "p%d" % i)
            os.makedirs(d)
            for k, v in files.items():
                open(os.path.join(d, k), "w").write(v)
            e = C.env()
            e.update({"XDG_CACHE_HOME": os.path.join(sc, "cache"), "HOME": os.path.join(sc, "cache"), "GOOS": "", "GOARCH": ""})
            p = subprocess.run([cli, "build", "--tags", " ".join(tags), "-o", "out.js", "."], cwd=d, env=e, capture_output=True, text=True, timeout=600)
            if p.returncode != 0:
                raise RuntimeError("generated CLI program does not build: %s\n%s" % (p.stderr[-800:], json.dumps(files)[:1500]))
            q = subprocess.run(["node", "out.js"], cwd=d, capture_output=True, text=True, timeout=60)
            got = set(q.stdout.split())
            if "end" not in got:
                raise RuntimeError("generated CLI program did not run: %s" % (q.stderr[-500:]))
            names, mops = model_lines("user", tags, r.get("desc") or [])
            for nm, op in zip(names, mops):
                if nm == "main.go":
                    continue
                ops.append(op + "  # cli --tags %r" % " ".join(tags))
                impl.append("go=%d js=0" % (1 if nm in got else 0))
            chk.count("cli-programs")
            for t in tags:
                if "." in t:
                    chk.count("cli-tags:dotted")
        model = C.run_driver("C18", [o.split("  # ")[0] for o in ops])
        chk.compare("select-cli", ops, impl, model, kind=lambda o, a: "cli:" + a)
    finally:
        shutil.rmtree(sc, ignore_errors=True)


def run(tier, seed):
    chk = C.Check("C18", tier, seed)
    chk.rule = ("generated package directories (files with //go:build expressions over a 31-tag vocabulary nested to depth 3, "
                "legacy +build lines, name suffix combinations, cgo files, .inc.js files, hidden files) imported through the real "
                "build.NewBuildContext(tags).Import with random -tags sets, plus GOROOT packages (std as js/wasm); a second pass places the "
                "project directories next to a symlinked GOROOT under names that start with the GOROOT string (<GOROOT>-apps, <GOROOT>x, "
                "<GOROOT>.d/sub ...): the location of user code must not change its classification; one case = one "
                "(file, tag set); non-trivial = distinct (file description, tag set)")
    chk.trusted = ["Lean 4.33 kernel; axioms propext/Classical.choice/Quot.sound at most",
                   "GV.Model.BuildTags transcribes go/build's matchTag/goodOSArchFile/shouldBuild; tied by this differential run",
                   "facts (GOOS, GOARCH, compiler, cgo, default/release/tool tags) read through the verif hook build.VerifGoCtx",
                   "harness-side header parsing (go/build/constraint.Parse, go/parser ImportsOnly) to describe files to the model"]
    chk.assumptions = ["go/build's placement rules for constraint lines are exercised, not modelled (generated headers are well placed)",
                       "module/vendor resolution not modelled", "post-load tweaks of runtime, runtime/pprof, sync, syscall/js excluded from the corpus"]
    C.build_gvh("gvh_c18")
    env_clean = {"GOOS": "", "GOARCH": ""}
    p = C.run_gvh(["facts"], name="gvh_c18", extra_env=env_clean)
    if p.returncode != 0:
        raise RuntimeError("gvh_c18 facts failed: " + p.stderr[-2000:])
    facts = json.loads(p.stdout)
    gen_src = write_generated(facts)
    chk.extra["extracted_facts"] = facts
    # proofs: generic theorems, then the obligations over the regenerated facts
    chk.proof = C.check_proofs("C18", THEOREMS, tier)
    envp = C.check_proofs("C18", ENV_THEOREMS, tier, module="GV.Props.C18Env")
    envp.obligations = ["GV.Props.C18." + t for t in ENV_THEOREMS]
    ax, _ = (C.audit("GV.Props.C18Env", envp.obligations) if envp.build_ok else ({}, ""))
    chk.proof.obligations += envp.obligations
    if envp.build_ok:
        for t in envp.obligations:
            a = ax.get(t)
            chk.proof.axioms[t] = a
            if a is not None and set(a) <= C.ALLOWED_AXIOMS:
                chk.proof.discharged.append(t)
            else:
                chk.proof.failed.append((t, "axioms %s" % a))
    else:
        for t in envp.obligations:
            chk.proof.failed.append((t, "GV.Props.C18Env does not build against the regenerated facts: %s" % json.dumps(facts)[:500]))
        chk.notes.append("extracted facts differ from the documented configuration; searching with the widened generator")
        chk.proof.build_log = envp.build_log
    # the context goCtx builds for user tag lists (incl. look-alikes of the always-on tags) vs the model's userCtx
    tl = [[]] + [[t] for t in LOOKALIKE] + [[t for t in USER_TAGS if chk.rng.random() < 0.1] for _ in range(200)]
    tl = [[t for t in x if "," not in t] for x in tl]
    impl_ctx = C.run_gvh_lines(["ctxtags"], [",".join(x) if x else "-" for x in tl], name="gvh_c18", extra_env=env_clean)
    ctx_ops = ["bt ctxtags %s" % (",".join(tag_tok(t) for t in x) if x else "-") for x in tl]
    chk.compare("goCtx-tags", ctx_ops, impl_ctx, C.run_driver("C18", ctx_ops), kind=lambda o, a: "ctxtags")
    widen = not envp.build_ok
    n = (1500 if tier == "thorough" else 250) * (3 if widen else 1)
    jobs = gen_jobs(chk.rng, n)
    std_jobs = [{"id": "s%d" % i, "std": pth, "tags": tg} for i, pth in enumerate(STD_PKGS)
                for tg in ([[]] if tier == "quick" else [[], ["netgo2", "linux"], ["wasm", "foo"]])]
    select_pass(chk, jobs + std_jobs, "select", env_clean)
    # --- where the project lives must not matter: project directories whose PATH merely starts with the GOROOT string
    # (siblings like <GOROOT>-apps, <GOROOT>x, <GOROOT>.d/sub) are user code (js/ecmascript); GOROOT is a symlink in a
    # scratch directory so that such siblings can be created without touching the real GOROOT's parent ---
    import shutil, subprocess
    sc = C.scratch("gvc18")
    try:
        goroot = subprocess.run(["go", "env", "GOROOT"], capture_output=True, text=True, env=dict(os.environ, GOTOOLCHAIN="local")).stdout.strip()
        os.symlink(goroot, os.path.join(sc, "go"))
        env_sib = dict(env_clean, GOPHERJS_GOROOT=os.path.join(sc, "go"), VERIF_SCRATCH=sc)
        wheres = ["go-apps", "gox", "go.d/sub", "go_/a/b", "work", "go1/src/app", "g"]
        sib = gen_jobs(chk.rng, (240 if tier == "thorough" else 50) * (3 if widen else 1))
        for i, j in enumerate(sib):
            j["id"] = "w%d" % i
            j["where"] = wheres[i % len(wheres)]
            chk.count("project-dir:" + j["where"])
        std_sib = [{"id": "ws%d" % i, "std": pth, "tags": []} for i, pth in enumerate(STD_PKGS[:12])]
        select_pass(chk, sib + std_sib, "select-sibling-of-goroot", env_sib)
    finally:
        shutil.rmtree(sc, ignore_errors=True)
    cli_pass(chk, tier, env_clean)
    return chk.finish()


def replay(path):
    rep = json.load(open(path))
    print(json.dumps(rep, indent=1)[:4000])
    return 1
