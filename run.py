#!/usr/bin/env python3
"""Entry point of every registered check:  python3 run.py Cxx --tier quick|thorough
Honours VERIF_SEED and VERIF_TIER. Exit 0 iff no VIOLATION line was printed."""
import argparse
import importlib
import os
import sys

sys.path.insert(0, os.path.dirname(os.path.abspath(__file__)))


def main():
    ap = argparse.ArgumentParser()
    ap.add_argument("property")
    ap.add_argument("--tier", default=os.environ.get("VERIF_TIER", "quick"), choices=["quick", "thorough"])
    ap.add_argument("--seed", type=int, default=int(os.environ.get("VERIF_SEED", "1") or "1"))
    ap.add_argument("--replay", default=None)
    a = ap.parse_args()
    pid = a.property.upper()
    mod = importlib.import_module("checks.%s" % pid.lower())
    if a.replay:
        sys.exit(mod.replay(a.replay))
    sys.exit(mod.run(a.tier, a.seed))


if __name__ == "__main__":
    main()
