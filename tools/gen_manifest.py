#!/usr/bin/env python3
"""Generates /verif/MANIFEST.json from tools/manifest_src.py (single source of truth) and validates it."""
import json
import os
import sys

HERE = os.path.dirname(os.path.abspath(__file__))
VERIF = os.path.dirname(HERE)
sys.path.insert(0, HERE)


def build():
    import manifest_src as M
    checks = []
    for pid, c in sorted(M.CHECKS.items()):
        checks.append({
            "property_id": pid,
            "quick_cmd": "python3 run.py %s --tier quick" % pid,
            "thorough_cmd": "python3 run.py %s --tier thorough" % pid,
            "evidence_file": "/verif/evidence/%s.json" % pid,
            "replay_cmd_template": "python3 run.py %s --replay {path}" % pid,
            "engine": "lean4+correspondence",
            "level_claimed": {"category": c.get("category", "proof"), "text": c["text"], "design_ref": "DESIGN.md section 6, %s" % pid},
            "level_note": c["note"],
            "technique": c["technique"],
        })
    props = [json.loads(l)["id"] for l in open(os.path.join(VERIF, "properties.jsonl"))]
    na = [{"property_id": p, "reason": M.NOT_APPLICABLE.get(p, "no check built yet in this round; see DESIGN.md")}
          for p in props if p not in M.CHECKS]
    return {
        "version": 1,
        "setup_cmd": "sh setup.sh",
        "hooks": M.HOOKS,
        "engines": M.ENGINES,
        "checks": checks,
        "notes": M.NOTES,
        "not_applicable": na,
    }


def main():
    m = build()
    path = os.path.join(VERIF, "MANIFEST.json")
    if "--check" in sys.argv:
        cur = json.load(open(path))
        if cur != m:
            print("MANIFEST.json is stale; run tools/gen_manifest.py", file=sys.stderr)
            sys.exit(1)
        return
    json.dump(m, open(path, "w"), indent=1)
    try:
        import jsonschema
        jsonschema.validate(m, json.load(open("/root/.vp/MANIFEST.schema.json")))
        print("MANIFEST.json valid: %d checks, %d not_applicable" % (len(m["checks"]), len(m["not_applicable"])))
    except ImportError:
        print("jsonschema not available; not validated")


if __name__ == "__main__":
    main()
