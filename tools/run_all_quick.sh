#!/bin/sh
# usage: tools/run_all_quick.sh [lanes]   — runs every property's quick check on /repo (VERIF_SEED default 1), `lanes` at a time;
# writes evidence/<id>.json (clean runs on /repo) and prints one summary line per property. Used before committing evidence.
LANES=${1:-4}
cd /verif || exit 2
OUT=${OUT:-/tmp/run_all_quick}
mkdir -p $OUT; rm -f $OUT/summary.txt
printf '%s\n' C01 C02 C03 C04 C05 C06 C07 C08 C09 C10 C11 C12 C13 C14 C15 C16 C17 C18 C19 C20 | \
  xargs -P $LANES -I{} sh -c 'st=$(date +%s); python3 run.py {} --tier quick > '$OUT'/{}.log 2>&1; rc=$?; e=$(date +%s); echo "{} rc=$rc wall=$((e-st))s viol=$(grep -c "^VIOLATION" '$OUT'/{}.log) known=$(grep -c "^KNOWN-FINDING" '$OUT'/{}.log)" >> '$OUT'/summary.txt'
sort $OUT/summary.txt
