#!/bin/sh
# usage: confirm_seed.sh <worktree>  — builds and runs the repository's suite in the worktree; prints a pass/fail summary vs BASELINE
W=$1
cd "$W" || exit 2
export GOFLAGS=-mod=mod GOPROXY=off GOSUMDB=off GOTOOLCHAIN=local CGO_ENABLED=0
go build ./... || { echo "BUILD FAILED"; exit 1; }
go test -json -vet=off -count=1 -timeout 25m ./... 2>/dev/null > /tmp/confirm_$$.json
python3 - /tmp/confirm_$$.json <<'PY'
import json,ast,sys
res={}
for l in open(sys.argv[1]):
    try: e=json.loads(l)
    except: continue
    if e.get('Action') in('pass','fail','skip') and e.get('Test'):
        res[e['Package']+'::'+e['Test']]=e['Action']
b=json.load(open('/root/.vp/BASELINE.json'))
sp=b['stable_pass']
if isinstance(sp,str): sp=ast.literal_eval(sp)
missing=[t for t in sp if res.get(t)!='pass']
print("baseline %d, passing now %d, baseline tests not passing: %s" % (len(sp), sum(1 for t in sp if res.get(t)=='pass'), missing[:10]))
PY
rm -f /tmp/confirm_$$.json
