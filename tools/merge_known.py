#!/usr/bin/env python3
"""Fold known_findings.d/*.json fragments into the single committed known_findings.json."""
import json, os, sys
V = os.path.dirname(os.path.dirname(os.path.abspath(__file__)))
main = os.path.join(V, "known_findings.json")
cur = json.load(open(main)) if os.path.exists(main) else {"findings": [], "fixed": []}
d = os.path.join(V, "known_findings.d")
if os.path.isdir(d):
    for f in sorted(os.listdir(d)):
        if f.endswith(".json"):
            j = json.load(open(os.path.join(d, f)))
            ids = {x["id"] for x in cur["findings"]}
            cur["findings"] += [x for x in j.get("findings", []) if x["id"] not in ids]
            cur["fixed"] += [x for x in j.get("fixed", []) if x not in cur["fixed"]]
            os.unlink(os.path.join(d, f))
cur["findings"].sort(key=lambda x: (x["property"], x["id"]))
json.dump(cur, open(main, "w"), indent=1)
print("%d findings, %d fixed" % (len(cur["findings"]), len(cur["fixed"])))
