#!/usr/bin/env python3
"""Fold known_findings.d/<Cxx>.json fragments into the single committed known_findings.json.
usage: merge_known.py C06 C15 …   (only the named properties' fragments are merged and removed)"""
import json, os, sys
V = os.path.dirname(os.path.dirname(os.path.abspath(__file__)))
main = os.path.join(V, "known_findings.json")
cur = json.load(open(main)) if os.path.exists(main) else {"findings": [], "fixed": []}
d = os.path.join(V, "known_findings.d")
for pid in sys.argv[1:]:
    f = os.path.join(d, pid + ".json")
    if not os.path.exists(f):
        print("no fragment for", pid)
        continue
    j = json.load(open(f))
    cur["findings"] = [x for x in cur["findings"] if x["property"] != pid] + j.get("findings", [])
    cur["fixed"] += [x for x in j.get("fixed", []) if x not in cur["fixed"]]
    os.unlink(f)
cur["findings"].sort(key=lambda x: (x["property"], x["id"]))
json.dump(cur, open(main, "w"), indent=1)
print("%d findings, %d fixed" % (len(cur["findings"]), len(cur["fixed"])))
