#!/usr/bin/env python3
"""Prints the markdown table of seeded changes (seeded/*/meta.json) for DESIGN.md section 11."""
import json, os
V = os.path.dirname(os.path.dirname(os.path.abspath(__file__)))
rows = []
for d in sorted(os.listdir(os.path.join(V, "seeded"))):
    m = json.load(open(os.path.join(V, "seeded", d, "meta.json")))
    needs = (m.get("needs") or "").replace("\n", " ").replace("|", "/")
    if len(needs) > 230:
        needs = needs[:227] + "..."
    rows.append("| %s | %s | %s | %s | %s |" % (d, m["property"], needs, m.get("status", "?"), (m.get("how") or "").replace("|", "/")))
print("| seeded/<id> | property | needs | status | which tie / what was added |\n|---|---|---|---|---|")
print("\n".join(rows))
