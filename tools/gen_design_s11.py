#!/usr/bin/env python3
"""Rewrites the generated parts of DESIGN.md section 11 (between <!-- gen:NAME --> and <!-- /gen:NAME --> markers):
   repairs  — the `fix:` commits recorded in known_findings.json, by property
   findings — the recorded (unrepaired) findings, by property
   seeds    — the table of seeded changes (seeded/*/meta.json)"""
import json, os, re, subprocess, collections
V = os.path.dirname(os.path.dirname(os.path.abspath(__file__)))
k = json.load(open(os.path.join(V, "known_findings.json")))

def repairs():
    by = collections.OrderedDict()
    for line in k["fixed"]:
        m = re.match(r"fixed: property=(C\d+) (\w+) (.*)", line)
        if not m:
            continue
        txt = m.group(3)
        if len(txt) > 170:
            txt = txt[:167] + "..."
        by.setdefault(m.group(1), []).append("`%s` %s" % (m.group(2), txt))
    n = sum(len(v) for v in by.values())
    hashes = {re.match(r"fixed: property=C\d+ (\w+) ", l).group(1) for l in k["fixed"] if re.match(r"fixed: property=C\d+ (\w+) ", l)}
    out = ["%d repairs by %d distinct `fix:` commits are recorded (a commit that repairs a defect seen by two properties is listed under both; "
           "the baseline suite, 777/777, was re-run on /repo after every batch):" % (n, len(hashes)), ""]
    for p in sorted(by):
        out.append("* **%s** — %s" % (p, "; ".join(by[p])))
    return "\n".join(out)

def findings():
    by = collections.OrderedDict()
    for f in k["findings"]:
        w = f.get("what_fails", "")
        if len(w) > 200:
            w = w[:197] + "..."
        by.setdefault(f["property"], []).append("`%s` — %s" % (f["id"], w))
    out = ["%d findings are recorded, each with a specific signature, a proved counterexample theorem and a `…_partial` theorem:" % len(k["findings"]), ""]
    for p in sorted(by):
        out.append("* **%s** — %s" % (p, "; ".join(by[p])))
    return "\n".join(out)

def seeds():
    t = subprocess.run(["python3", os.path.join(V, "tools", "gen_seed_table.py")], capture_output=True, text=True).stdout.rstrip()
    st = collections.Counter()
    for d in os.listdir(os.path.join(V, "seeded")):
        st[json.load(open(os.path.join(V, "seeded", d, "meta.json"))).get("status", "?")] += 1
    head = "%d seeded changes: %s." % (sum(st.values()), ", ".join("%d %s" % (n, s) for s, n in sorted(st.items())))
    return head + "\n\n" + t

p = os.path.join(V, "DESIGN.md")
s = open(p).read()
for name, fn in (("repairs", repairs), ("findings", findings), ("seeds", seeds)):
    rx = re.compile(r"(<!-- gen:%s -->\n).*?(<!-- /gen:%s -->)" % (name, name), re.S)
    if not rx.search(s):
        raise SystemExit("marker gen:%s missing in DESIGN.md" % name)
    s = rx.sub(lambda m: m.group(1) + fn() + "\n" + m.group(2), s)
open(p, "w").write(s)
print("DESIGN.md section 11 regenerated")
