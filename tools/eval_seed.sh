#!/bin/sh
# usage: eval_seed.sh <tag> <Cxx>   — confirms a seed (suite in its worktree) and runs the property's quick check on a patched copy
TAG=$1; PID=$2
O=/tmp/seedout/$TAG
{
echo "== confirm (baseline suite in worktree)"; /verif/tools/confirm_seed.sh /tmp/seedwt/$TAG
echo "== check on patched copy"; /verif/tools/try_patch.sh $O/patch.diff $PID 2>&1 | tail -6
cp /verif/replays/$PID-1-quick.json $O/replay.json 2>/dev/null
} > $O/eval.txt 2>&1
