#!/bin/sh
# usage: tools/try_patch.sh <patch.diff> <Cxx> [tier]   — runs a check against a scratch COPY of /repo with the patch applied
set -e
PATCH=$(readlink -f "$1"); PID=$2; TIER=${3:-quick}
T=$(mktemp -d /tmp/trial-XXXXXX)
rsync -a --exclude .git /repo/ "$T/"
(cd "$T" && patch -p1 -s < "$PATCH")
TAG=$(python3 -c "import hashlib,sys;print(hashlib.sha1(sys.argv[1].encode()).hexdigest()[:8])" "$T")
cd /verif
set +e
VERIF_REPO="$T" python3 run.py "$PID" --tier "$TIER"
RC=$?
rm -rf "$T" /verif/harness/alt.$TAG.* /verif/harness/bin/*.$TAG
echo "exit=$RC"
