BASELINE_OFF = ("cd /repo && export GOFLAGS=-mod=mod GOPROXY=off GOSUMDB=off GOTOOLCHAIN=local && "
                "go test -json -vet=off -count=1 -timeout 25m ./...")

HOOKS = {
    "guard": "verif",
    "enable": "go build -tags verif (the harness module /verif/harness replaces github.com/gopherjs/gopherjs by /repo)",
    "baseline_off_cmd": BASELINE_OFF,
    "source_commits": [],
    "add_only": True,
}

ENGINES = [
    {"name": "lean4+correspondence", "path": "/verif/lean", "serves_properties": [],
     "kind_free_text": "Lean 4 models + theorems (lake project gv), core-only driver gvdriver, differential runs against the real "
                       "prelude under Node and the real compiler through the Go harness /verif/harness"},
]

NOTES = ("Every check: python3 run.py Cxx --tier quick|thorough. Lean theorems are rebuilt and their axioms audited on every run; "
         "the hand-written models are tied to /repo's working tree by differential runs (see DESIGN.md sections 2-3).")

NOT_APPLICABLE = {}

CHECKS = {
    "C14": {
        "text": "Lean theorems: the prelude's $decodeRune/$encodeRune (transcribed) equal Unicode Table 3-7 + Go's U+FFFD rule for all "
                "byte strings/positions/runes, decode∘encode round trip, range iteration = spec. Tied to prelude.js by running the real "
                "functions under Node against the model on an exhaustive boundary-alphabet space plus random inputs.",
        "note": "Trusted: Lean kernel; the model is a hand transcription checked by differential execution (not proved equal to the JS); "
                "the spec is my reading of Unicode/Go spec; V8. The compiler's emission of string operations is covered by compiled "
                "programs only where stated in the evidence.",
        "technique": "Lean 4 proof (model = spec, unbounded) + differential correspondence model vs real prelude under Node",
    },
}
