BASELINE_OFF = ("cd /repo && export GOFLAGS=-mod=mod GOPROXY=off GOSUMDB=off GOTOOLCHAIN=local && "
                "go test -json -vet=off -count=1 -timeout 25m ./...")

HOOKS = {
    "guard": "verif",
    "enable": "go build -tags verif (the harness module /verif/harness replaces github.com/gopherjs/gopherjs by /repo)",
    "baseline_off_cmd": BASELINE_OFF,
    "source_commits": ["verif hook: expose the go/build context configured by goCtx (build/verif_hooks_c18.go)",
                       "verif hook: expose encodeString (compiler/verif_hooks_c14.go)",
                       "verif hook: expose the overlay augmentation entry points (build/verif_hooks_c12.go)",
                       "verif hook: expose sourcemapx hints/filter and funcContext output plumbing (compiler/verif_hooks_c19.go)",
                       "verif hook: expose removeWhitespace, name allocation and encodeIdent (compiler/verif_hooks_c16.go)",
                       "verif hook: let a session use the build cache (build/verif_hooks_c20.go)",
                       "verif hook: expose the dead-code selection as the linker computes it (compiler/verif_hooks_c05.go)",
                       "verif hook: extend the C16 name-allocation hook with generic child contexts and varPtrName (compiler/verif_hooks_c16.go)",
                       "verif hook: expose funcContext.objectName to the C16 naming tie (compiler/verif_hooks_c16.go)"],
    "add_only": True,
}

ENGINES = [
    {"name": "lean4+correspondence", "path": "/verif/lean", "serves_properties": [],
     "kind_free_text": "Lean 4 models + theorems (lake project gv), core-only driver gvdriver, differential runs against the real "
                       "prelude under Node and the real compiler through the Go harness /verif/harness"},
]

NOTES = ("Every check: python3 run.py Cxx --tier quick|thorough. Lean theorems are rebuilt and their axioms audited on every run; "
         "the hand-written models are tied to /repo's working tree by differential runs (see DESIGN.md sections 2-3). "
         "Genuine defects of the unchanged tree: repaired by 69 `fix:` commits in /repo (70 `fixed` entries in known_findings.json, one commit being listed under two properties; the "
         "per-check notes name only the earlier ones), 21 recorded in known_findings.json and re-observed as KNOWN-FINDING lines on every "
         "run (C01 2, C04 4, C06 2, C08 3, C09 5, C12 2, C16 1, C19 2). 97 independently written breaking changes are kept under seeded/ "
         "(DESIGN.md section 11 lists which tie catches which). tools/run_all_quick.sh runs every quick check; tools/try_patch.sh <patch> Cxx "
         "runs one check against a patched copy of /repo.")

NOT_APPLICABLE = {}

CHECKS = {
    "C01": {
        "text": "Lean theorems: direct_correct - the direct (non-resumable) translation of GV.Ctrl statements (while(true)/post-before-"
                "continue/switch(0) wrapper/JS labels, transcribed from statements.go) into a MiniJS with completion semantics preserves the "
                "reference semantics for every well-formed statement, store and interpretation of the primitives; desugar_once - op-assign "
                "and inc/dec desugaring over nested lvalues evaluates each side-effecting operand once, in source order, and stores the "
                "Go-spec result; names_distinct_plain - non-minified name allocation (name, name$1, ...) gives pairwise distinct, never "
                "reserved names for every scope history (under RenderInj, discharged for ASCII identifiers); a regenerated-facts "
                "obligation checks the extracted reservedKeywords against the ECMAScript reserved words and the globals the generator emits "
                "unqualified. Tied by broad generated programs (accepted by the compiler, node --check, Node trace = native Go = Lean "
                "model), the emitted direct-mode skeleton and desugaring temporaries, and the real newVariable through the C16 hook.",
        "note": "translateExpr, goto (functions with goto are always flattened: C02), defer, 'no internal error' and 'valid JS' are observed on generated programs, not proved. After the repair (fix: 0aca1c3 globals the generator emits unqualified are reserved in the root context) reserved_covers_used is a full regenerated-facts obligation; encodeIdent_inj_utf8 makes names_distinct_plain hold for all valid identifiers; round 3 added the operand classification theorems of the desugaring (kept_in_place / everything_else_hoisted / conversion_kept_in_place_wrong). 2 known findings (tuple-assignment operand order; run-time check of an assignment target panics before the right-hand side is evaluated).",
        "technique": "Lean 4 proof (simulation by induction on the reference derivation; allocator invariant) + regenerated-facts obligation + three-way program traces + artefact skeleton ties",
    },
    "C13": {
        "text": "Lean theorems per family of JS-backed overrides: math/bits Mul32/Add32 for all operands, Div32/Rem32 panic spec and the "
                "Knuth-D digit estimate exact for all digits; unicode `to`: the override's binary search equals a linear scan on every sorted "
                "non-overlapping table (the real CaseRanges and Turkish tables are re-extracted on every run and decided sorted by a "
                "regenerated-facts obligation); sync/atomic cell operations and Value (CompareAndSwap partial + counterexample); nosync "
                "refines the sequential specification of sync for every history (panics exactly where sync panics, blocks or throws); "
                "math: bit reinterpretation, sign/class tables, Floor/Ceil = the ECMAScript definition for all 2^64 patterns, Trunc/Modf "
                "partial with proved refutations. Tied by compiled table programs under Node vs native Go vs the Lean driver (float bits "
                "observed through a DataView), nosync natively vs the driver vs the real sync in child processes, exhaustive unicode.To "
                "over all runes in the thorough tier, and Decl.Blocking == false for every function of the compiled sync/atomic archive.",
        "note": 'After three repairs (fix: 71250f7 Trunc, 5160daf Modf, 517a246 Value.CompareAndSwap) trunc_eq, modf_eq, value_cas_eq hold for all arguments and div32_correct is proved for all operands; Ldexp/Frexp have partial exact models (ldexp_agree, frexp_normal, ldexp_frexp). Mod/Remainder and transcendental special cases are compared compiled-vs-native only; NaN sign treated as payload. No known findings left.',
        "technique": "Lean 4 proof + regenerated-facts obligation (unicode tables) + differential correspondence (compiled programs vs native Go; nosync vs real sync)",
    },
    "C08": {
        "text": "Lean theorems: every run-time check (index, 2/3-index slicing via $subslice, $substring, $makeSlice, $sliceToGoArray, nil-map "
                "store, integer divide and remainder, send/close, $interfaceIsEqual, $assertType), transcribed from the prelude / the emitted "
                "rangeCheck text, panics exactly when the Go specification says, for all Int operands (close(nil) and s[low:] refuted with "
                "witnesses + partial theorems); the $recover depth arithmetic selects exactly functions called directly by the deferred-call "
                "loop, for every call chain incl. $methodExpr and forwarding wrappers; the emulation ($callDeferred/$panic/$recover + emitted "
                "try/catch/finally, transcribed statement by statement) equals Go's reference semantics for single-frame goroutine "
                "functions, and is refuted for four recorded defect classes by proved counterexamples. Tied to the real prelude driven "
                "under Node by scripted frames of the emitted shape (emulation vs reference on every script), to the prelude checks on "
                "boundary grids, and to compiled table / scenario / rendered-script programs GopherJS plain+minify vs native Go vs model.",
        "note": "After eight repairs (fix: fc7319c, 4728762+9f57406, efbb250, 3805daf, 3b471dc, 1da8b14, 2de40f9, and C03's 878216e) checks_exact and recover_depth are full strength; defer_refines_noNLE proves emulation = reference for all programs without panic/Goexit statements (arbitrary nesting of calls and deferred calls, all call kinds); single-frame functions with panics/Goexit are covered by defer_refines_partial. Not proved: panics or Goexit crossing frames with pending deferred calls, suspension inside deferred calls (three-way script and program ties only, 0 divergences). 3 known findings (remaining deferreds skipped after a blocking recover; nil-map / index store panics before the right-hand side is evaluated). Regenerated-facts obligation (C08Env): Error.stackTraceLimit extracted from the prelude must be unbounded - the model's depth counter is exact iff it is (depth_observable_iff); ties run every scenario at JS stack depths up to 5000-10000.",
        "technique": "Lean 4 proof (checks = spec for all operands; depth arithmetic; leaf simulation) + differential correspondence (scripted frames on the real prelude, boundary grids, compiled programs vs native Go)",
    },
    "C10": {
        "text": "Lean theorems: ImportDependencies (transcribed DFS) lists exactly the reachable packages once, each after its imports, the "
                "runtime closure first and main last, for all acyclic import graphs; the $init protocol as a small-step machine (activation "
                "stack, self-replacement, resumable items) initialises every reachable package exactly once, after the initialisation of "
                "all its imports has completed, with no overtaking, under EVERY suspension schedule, and suspension is invisible in the "
                "trace; zero-initialisers first is harmless; file order, init-call order and import-initialiser order depend only on the "
                "set of names (reusing C17.sort_perm_invariant); the go:linkname decision table, the implementation split and IsMethod. "
                "Tied by generated multi-package programs (all DAGs on <= 4 packages in the thorough tier, blocking initialisers, linkname "
                "edges in both directions) GopherJS vs the model's exact trace vs the allowed-set predicate vs native Go, the real "
                "ParseGoLinknames on generated files, and the structure of the emitted JS.",
        "note": "Trusted: go/types InitOrder; the JS save/restore chain itself is C02's subject. Regenerated-facts obligation (C10Env): no initialiser of the runtime closure can suspend (read from the compiled archives on every run) - the hsync hypothesis of init_once_after_imports, shown necessary by boot_sync_needs_hsync. After two repairs (fix: 23b59e1 exported bodyless linkname functions, cf9f7cf %2e-escaped import paths) linkname_resolves and linkname_split are full strength; GoLinknameSet.Add conflicts modelled. No known findings left.",
        "technique": "Lean 4 proof (graph induction, small-step machine invariants over all schedules) + differential correspondence (programs, real linkname parser, emitted-JS structure)",
    },
    "C11": {
        "text": "Lean theorems: the two string transcoding loops round-trip every valid UTF-8 string (incl. non-BMP) and every UTF-16 string "
                "without lone surrogates, with the lone-surrogate / invalid-byte behaviour characterised; type-directed $externalize/"
                "$internalize round-trip for scalars (ints in range, 64-bit values exactly when representable as doubles, with the exact "
                "behaviour beyond 2^53, floats by token) and slices nested to any depth through the documented typed-array classes; the "
                "documented table of js/js.go holds in both directions; the wrapper cache is stable and injective for all histories; the "
                "callback guard's full statement is refuted with the 3-event witness and the partial (error raised, one surviving entry) "
                "proved. Tied to the real prelude under Node on generated (type object, value) pairs to depth 4 and to self-checking "
                "compiled programs using every js.Object accessor, with expectations computed by the model.",
        "note": 'After five repairs (fix: 7623049 callback guard, 8267759 -0, 4b94341 nil map, 851fa8e int/uint truncation, b9c1d05 array backing class) roundtrip is one theorem over scalars (incl. -0, NaN), slices, arrays, string-keyed maps and structs nested to any depth; callback_guard is the full statement (state unchanged when the error is raised) with $select modelled and scheduler_never_calls_noGoroutine as an invariant. Not in the theorem: functions beyond identity, time.Time/Date and DOM rows (cannot be exercised here), pointers/interfaces/*js.Object (tied, outside the table). No known findings left.',
        "technique": "Lean 4 proof (structural induction on types/values, cache invariant) + differential correspondence (Node prelude, compiled programs)",
    },
    "C07": {
        "text": "Lean theorems: $subslice/$append/$appendSlice/$copySlice/$copyArray (transcribed) equal the Go slice specification for all "
                "headers, index triples and window pairs (both overlap directions; reallocation iff len+n > cap; writes confined to "
                "[len, len+n)); $clone copies exactly the array/struct spine and shares everything else; the ownership invariant (spines of "
                "distinct storage locations are disjoint trees) and JS-run = Go-run hold for every program of the copy-context language "
                "under any clone table that copies at each new-location context; the translator's real table (transcribed, tied to the "
                "clone sites extracted with go/ast) does so except at four contexts - proved counterexamples = recorded findings. Tied to "
                "the real prelude under Node vs model vs spec, and to generated alias-probe programs (random type shapes, 15 copy contexts, "
                "8 aliasing templates) GopherJS plain+minify vs native Go vs the model's prediction.",
        "note": "After the repairs (fix: 6e37632 $growSlice, 7859eb0 boxing, 5209e47 range over array value, 33390c5 value receivers) value_semantics holds at full strength for the translator's clone table (no excluded context) and append_fresh_elems for all element kinds; pointers ($get/$set, $indexPtr caches) are modelled: ptr_identity, ptr_eq_iff, alias_semantics. Not modelled in Lean (program tie vs native Go only): maps, channels, closure capture, the expression translator. No known findings left.",
        "technique": "Lean 4 proof (model = spec; invariant by induction over statements; refinement) + differential correspondence (Node prelude, alias-probe programs vs native Go) + go/ast clone-site extraction",
    },
    "C04": {
        "text": "Lean theorems over an abstract program (generic definitions with uses over their own and their nesting function's parameters, "
                "seeds from non-generic code) and a transcription of the work-list instance collector (Scan + Finish + propagate with "
                "per-package sets, cursors and ids): the collected set is exactly the least set closed under the program's uses "
                "(collect_sound/complete/exact, termination as explicit hypothesis), ids are injective, positional and stable, the set is "
                "independent of package and seed order, nest+own substitution composes; completeness without the LocalFree hypothesis is "
                "refuted by a proved counterexample. Tied by programs generated from a model term (several packages, nested and mutually "
                "recursive instantiations, local generic types, both import directions): GopherJS plain+minify vs native Go with "
                "per-instance probes (zero value, type description, arithmetic width, dispatch, blocking, identity matrix), and the real "
                "per-package instance sets with ids vs the Lean collect on the same use-graph.",
        "note": 'After two repairs (fix: 7e48a9a qualified instantiation in generic code, 678656f FindNestingFunc across packages) collect_terminates and collect_total are proved under a finite-closure hypothesis; sound/complete/exact keep WellScoped + LocalFree, and both counterexamples show LocalFree cannot be dropped for the code as it is. Not proved: translation of bodies, instName, per-instance blocking, faithfulness to go/types.Instantiate. 4 known findings (function-local types as type arguments / inside composite types: compiler panics; same-named local types across packages conflated).',
        "technique": "Lean 4 proof (work-list invariant; model = least fixed point) + model-first program generation + differential runs + instance-set comparison",
    },
    "C17": {
        "text": "Lean theorems, one per class of place where a runtime-chosen iteration order could reach the output: sorting erases any "
                "permutation (sort_perm_invariant, for total antisymmetric orders; instance for sort.Strings), commuting per-key updates "
                "and commutative reductions are order-free, and the repaired Collector.Finish is independent of the map-iteration oracle "
                "for every oracle that returns a permutation (finish_sorted_order_independent); the unrepaired code is not (proved "
                "counterexample, repaired by fix: 4dcd407). A regenerated-facts obligation checks on every run that every range over a "
                "map-typed expression, unstable sort call and InstanceMap.Iterate/Keys caller found by go/types in the compiler and build "
                "packages is in the audited table with an unchanged fingerprint of the audited loop / enclosing block. The property's own "
                "observation is the search engine: generated multi-package generic programs built by N fresh compiler processes x minify x "
                "cache on/off x permuted file listings must hash to one value per configuration; and GOPATH workspaces whose commands are installed alone and inside multi-command sessions must come out byte-identical (session_independent, session_project_context; regenerated fact: BuildProject resets the project-dependent session maps; the old sharing = proved counterexample, repaired by fix: caba386).",
        "note": "Trusted: the classification of each audited site is by reading the code; class F (monotone propagation to a fixed point) "
                "relies on GV.Props.C02.propagate_lfp; nondeterminism is assumed to enter only through map iteration, unstable sorts and "
                "file listing order (no goroutines/time/randomness on the output path - not checked).",
        "technique": "Lean 4 proof (order-independence per class) + regenerated-facts obligation (audited iteration sites, decide) + repeated fresh-process build hashing as search",
    },
    "C03": {
        "text": "Lean model of goroutines.js ($send/$recv/$close/$select, $go/$schedule/$runScheduled/$block, counters, timers) as "
                "step : State -> Event -> State x Obs with every nondeterministic choice (random pick among ready select cases, which "
                "goroutine acts, dequeues, slice breaks, timers) an event argument. Proved by induction over arbitrary event sequences "
                "(unbounded goroutines, channels, capacities): queue shape, FIFO conservation (received ++ buffer = committed, unbuffered = "
                "hand-off), the case $select picks is ready for every random value; close and nil-channel semantics in partial form with "
                "proved counterexamples for two recorded defects. Tied to the real prelude under Node with controlled random/clock/timers and "
                "compiler-shaped scripted goroutines, diffed against the model after every event and judged step by step by an independent "
                "Go-channel transition system; compiled programs vs the model's prediction / allowed outcome set and native Go.",
        "note": 'After the repairs (fix: 0810d0f select-send entry on close, 878216e close(nil)) close_semantics (with wake results), nil_never_proceeds, no_lost_wakeup (bookkeeping and liveness halves), awake_count, deadlock_report_iff and select_default are proved at full strength by induction over arbitrary event lists; only refines_go remains a stated Prop whose executable verdict is evaluated on every visited step (millions). No known findings left.',
        "technique": "Lean 4 proof (invariants by induction over event lists) + differential correspondence (real JS runtime vs Lean driver vs Go-channel LTS) + compiled programs",
    },
    "C09": {
        "text": "Lean model of types.js (canonicalising caches with their key strings, $methodSet incl. seen-by-string and first-wins, "
                "$assertType memo as state, $interfaceIsEqual) against a Go-spec model (type identity, method sets with promotion by depth and "
                "ambiguity exclusion, pointer-receiver rules, interface satisfaction). Proved: named types never share an object; canonical "
                "identity for arrays/chans/funcs/maps/pointers/slices at full strength and for structs under decidable hypotheses; "
                "assertion sequences equal Go's under StringsInjective; interface equality incl. the uncomparable panic under "
                "ComparableFlagsOk; 13 proved counterexamples for the recorded defects. Tied three-way (real prelude under Node / model / "
                "spec) on generated type families probing every (dynamic type, interface) pair in shuffled orders, pinned emission format, "
                "and generated Go programs against native Go.",
        "note": 'After eight repairs (fix: 8133099 b3f60aa ff982ce 5175c53 bbaf114 56ac12f b0ccdc2 3971cb0) canon_identity is full strength for every constructor (interfaces under CleanMethod), assert_correct holds for every assertion sequence, iface_eq under LeafFlagsOk, and methodset_correct (embedding, promotion by depth, shadowing, pointer indirection) is proved under decidable CleanOn/WalkClean hypotheses that cover ~80% of generated probes. Dispatch is covered by programs only. 5 known findings sharing the $methodSet level merge (same-depth ambiguity, pointer-receiver shadow, field hides method, unexported names of two packages, method named constructor).',
        "technique": "Lean 4 proof (cache invariants, memo soundness over assertion sequences) + three-way differential correspondence + generated programs vs native Go",
    },
    "C05": {
        "text": "Lean theorems over a transcription of the work-list selector (dce/selector.go as driven by WriteProgramCode): for all "
                "declaration lists, inclusion orders and pending-list disciplines the selection is exactly the least set containing the roots "
                "(alive, unnamed, go:linkname implementations) and closed under 'all non-empty filters occur among dependency names of "
                "members' (select_lfp); hence order-independent, monotone in alive, closed under recorded dependencies, exact, and stable "
                "under injective renaming of filter names. Tied to the real dce.Selector (verif hook) on the full declaration tables of "
                "every generated program incl. the runtime, to the linker's emission, to a static closure scan of live code, and to the "
                "property's own observation: generated programs linked normally vs with every declaration forced alive vs native Go.",
        "note": 'Round 2 added a sole-reference matrix (19 ways of reaching a method x exported/unexported x value/pointer receiver = 76 cells, all generated in every run), a method-reference scan of live code, and filter_names_injective / method_filter_eq_iff over a term model of filters.go (not tied to the code by a run). Not proved: completeness of dependency recording in the translator.',
        "technique": "Lean 4 proof (loop invariant, well-founded recursion; model = least fixed point) + differential correspondence with the real selector through a verif hook + normal vs all-alive vs native program runs",
    },
    "C02": {
        "text": "Lean theorems over a MiniGo statement language with opaque primitives (GV.Ctrl) and a transcription of the flattened "
                "switch-case translation (caseCounter numbering, if-chains, loops with blocking post statements, labelled break/continue, "
                "switch, the resume block of a blocking call): flatten_correct - for every body, store and suspension schedule (any call "
                "suspending any number of times) the flattened machine with frame save/restore ends in the reference final store and trace "
                "(block-compilation lemma + segmentation lemma); saved-frame completeness with a proved counterexample for a dropped local; "
                "the blocking set computed by the propagation loop is the least fixed point for every visiting order. Tied by generated "
                "programs P (no yields) and P' (yields at 13 kinds of call, loop posts, sub-expressions; one artefact, all/random schedule "
                "subsets via an environment variable) under Node vs the Lean machine vs native Go, and by scans of the emitted case "
                "skeleton, the $f/$restore lists and Decl.Blocking of the real archives.",
        "note": "Round 2 added deferred calls and the blocking return protocol (return_resume for every schedule; return_reeval_counterexample = the seeded change), andor_flat, args_order, flatten_correct_defer_partial (the two machines are composed at the return; the re-entry case of a blocking return is not part of flatten's code list). Not modelled: goto. One defect found and repaired (fix: ea9ea24 zero results after a recovered panic resumed). No known findings left.",
        "technique": "Lean 4 proof (compiler-correctness simulation with continuations; least fixed point) + differential program runs over schedule subsets + artefact structure ties",
    },
    "C16": {
        "text": "Lean theorems: the bijective base-26 short-name generator is injective; package-level (upper-case) and local (lower-case) "
                "short names are disjoint and never reserved; for every history of nested function contexts the names in scope are pairwise "
                "distinct, fresh and never reserved (the reserved seeding is needed: `do` is the 119th candidate); removeWhitespace "
                "(transcribed byte scanner) equals the item-level algorithm - only whitespace and comments are dropped, strings and hints "
                "survive untouched, no out-of-bounds read - and preserves the token sequence under GenWF and SafeAdjacent. Tied to the real "
                "removeWhitespace/newVariable/encodeIdent through a verif hook (generated token soups, malformed streams exhaustively up "
                "to length 4-5, every Decl code field of compiled programs, on which GenWF/SafeAdjacent are evaluated) and to generated "
                "programs built plain and minified and run natively.",
        "note": "names_distinct covers varPtrName after the repairs (fix: 2fad7d7 non-ASCII needsSpace, 2e63cf2 per-context pointer variable names) and assumes the compiler's stack discipline for allocations; the minify-off name$n scheme is proved in C01 (names_distinct_plain); esbuild minification of the prelude is exercised only. 1 known finding shared with C01 (a Go variable named `console`: plain build fails, minified works).",
        "technique": "Lean 4 proof (refinement scanner = item algorithm, token automaton simulation, allocator invariant over histories) + differential correspondence through a verif hook + plain/minify/native program comparison",
    },
    "C20": {
        "text": "Lean models of path.Clean/Join, Go %#v quoting, commonKey/packageKey/cachedPath (abstract hash), isTestPackage, Store as "
                "file-system steps with atomic rename and Load over an abstract envelope. Proved: Clean idempotent and canonical; quoting and "
                "the rendered key text injective; key injectivity is false of the code (two proved witnesses) and holds for keys without "
                "dot/empty path elements; Load is sound for every file-system state; provenance over all histories of complete or crashed "
                "Stores; stale / test-package / missing / damaged => miss; crash atomicity at every prefix of Store's steps; temp names never "
                "equal final names. Tied to the real build/cache in a scratch cache directory (adversarial configurations, timestamps), "
                "to exhaustive truncation / byte-flip enumeration of real cache files, to SIGKILL injection (strace) at every write/close/"
                "rename of Store, and to JS built without cache / cold / warm / damaged cache in fresh processes.",
        "note": 'After four repairs (fix: 705f582 key without path.Clean, ef1cd31 gzip checksum verified before decoding, dfb9645 floating comments kept, e26221a local import paths not cached) key_injective, cachedPath_injective and load_provenance are full strength (quoting modelled for all byte strings incl. multi-byte UTF-8). Hypotheses, not modelled: gzip/gob envelope, SHA-256 injectivity, OS rename atomicity, no concurrent writers; cleanBytes = clean is stated and tied exhaustively, not proved. No known findings left.',
        "technique": "Lean 4 proof (induction over step sequences and histories, prefix-code argument) + differential correspondence with the real cache + fault enumeration (truncation, flips, strace kill points)",
    },
    "C06": {
        "text": "Lean models of the JS integer fragment, the {$high,$low} constructor, $mul64/$div64/shift helpers and the per-(type, operator) "
                "emitted schemes; proved equal to the BitVec specification for + - * / % unary minus, comparisons and all 81 integer "
                "conversions for all operand values (partial exactly at the recorded defect sets, each with a proved counterexample), "
                "canonical-representative and exact-double invariants, mul64 and the 64-bit add/sub/neg. Tied to the real prelude helpers under "
                "Node (boundary grid x all shift counts) and to compiled table programs (exhaustive for 8-bit types in the thorough tier) "
                "against the Lean spec and native Go.",
        "note": 'After the repairs (fix: 2b29449 unary minus, 4ec94fa quotient, 3b2cfda remainder, 07b97d5 >> constant, 22878a7 64-bit constructor) scheme_correct, bitwise_correct, shift_correct (every count), shift64_correct, repr_inv are full strength. Not proved: the quotient/remainder values of $div64 (panic condition, canonical result and termination are); float and complex arithmetic only against native Go (IEEE rounding delegated to the engine). Shift by a negative count is the documented permitted difference. 2 known findings ($divComplex special values / equal-magnitude branch). Regenerated-facts obligation (C06Env): the (operator case, guard, emitted expression) table extracted from expressions.go with go/ast must equal the known table whose entries name the proved schemes (optable_known, mul_patterns, small_const_mul_inexact); a changed or new pattern triggers an exhaustive 8-bit / full-grid search for the affected operators.',
        "technique": "Lean 4 proof (schemes = BitVec spec, unbounded) + three-way differential correspondence (real prelude / compiled programs / native Go)",
    },
    "C15": {
        "text": "Lean theorems: keyFor (transcribed per kind, incl. $floatKey state and $/\\ escaping) is injective exactly up to Go == for every key "
                "type, value and state under explicit hypotheses excluding the three recorded collisions (each with a proved counterexample); "
                "join/escape/decimal injectivity at full strength; every history of store/overwrite/delete/index/comma-ok/len/literal refines an "
                "abstract map; the emitted range loop visits every surviving entry exactly once and never a deleted one, for every loop body. "
                "Tied to the real keyFor functions under Node on generated typed key pairs (depth 3, adversarial strings, equally named types) "
                "and to compiled map-history programs against the model and native Go.",
        "note": "After four repairs (fix: 3872e1a, f2c4271, 18405f1, d275e0d) key_injective and map_refines are full strength (hypotheses: ToStringOK - Number::toString injective on finite doubles, stated explicitly and discharged for the driver's instance; key typing; the proved state invariant). Modelled, not verified: a dynamic type is identified by its typ.id; blank struct fields (program witness vs native Go). 1 known finding (named pointer conversion allocates a new pointer object).",
        "technique": "Lean 4 proof (structural induction on key types, refinement, loop invariant) + differential correspondence (Node prelude, compiled programs, native Go)",
    },
    "C19": {
        "text": "Lean theorems over a transcription of internal/sourcemapx (hint wire format, Filter.Write) and of funcContext's pending-position "
                "plumbing: for all streams of code and hints and all admissible chunkings the bytes written are exactly the code bytes, each "
                "mapping is at the exact output position of its hint, the result is chunking-independent, hint round trip, payload bytes never "
                "start a hint; byte vs UTF-16 columns agree under AsciiBeforeHints (checked on every emitted file). Tied to the real "
                "Hint/Filter/WriteJS/funcContext through a verif hook, and to generated programs built plain and minified with maps: no hint "
                "bytes left, same code with and without map, mappings in range, statement starts, Node stack frames resolved through the map.",
        "note": "After three repairs (fix: 7f3fc72, fa56715, 9aee220) offset_js is full strength and every statement kind of the generator must carry a mapping; minify_keeps_mappings bridges to C16's rw_items. Not modelled: gob payload encoding, token.FileSet, esbuild, where the translator places positions (program tie only). 2 known findings (switch tag and function-literal call frames without position).",
        "technique": "Lean 4 proof (induction over item lists and chunkings) + differential correspondence through a verif hook + compiled programs with decoded source maps",
    },
    "C12": {
        "text": "Lean theorems over a transcription of build.go's augmentOverlayFile/augmentOriginalFile/augmentOriginalImports/"
                "pruneImports/finalizeRemovals: for all file lists the merged declarations (names with provenance, signatures, var "
                "initialisers), their order, the import pruning rule, the nosync substitution and the init exception equal the documented "
                "directive rules (merge_names, order_preserved, values_untouched, imports_pruned, init_never_overridden, ...). Constant "
                "values: the full statement is false of the code (iota / implicit repetition shift) - proved counterexamples, partial "
                "theorems, two recorded known findings replayed against the real functions and go/types on every run. Tied by running "
                "the real functions (verif hook) on generated source pairs and on the 78 real natives overlays, plus the real "
                "parseAndAugment on natives packages.",
        "note": "Trusted: Lean kernel; hand model tied by differential runs (hook sequence AND the real parseAndAugment on natives packages and on generated pairs); go/parser comment association and the directive regex are exercised, not modelled; 'the merged package type-checks' is observed with go/types. 2 known findings (const-group iota shift, orphaned implicit-repetition specs; proposed repair in fixes/ has caveats and is not applied).",
        "technique": "Lean 4 proof (model = documented rules, all file pairs) + differential correspondence through a verif hook + go/types oracle",
    },
    "C18": {
        "text": "Lean theorems: go/build's matchTag/goodOSArchFile/shouldBuild (transcribed), under the configuration GopherJS builds, "
                "satisfy a tag iff it is in the documented set (js, ecmascript, gc, gopherjs, netgo, purego, math_big_pure_go, go1.1..go1.20) "
                "or given with -tags, for every tag, expression and tag list; no later release tag; cgo never; std as js/wasm; a user tag "
                "only affects expressions that mention it. The configuration facts are re-extracted from the code on every run and a "
                "Lean obligation (decide) checks they equal the documented ones. Tied by importing generated package directories and "
                "GOROOT packages through the real build context and comparing the selected files with the model, including project directories whose path merely starts with the GOROOT string (the location of user code must not change its classification), symlinked files and look-alike user tags.",
        "note": "Trusted: Lean kernel; model of go/build's matcher is a transcription tied by differential runs; header parsing on the "
                "harness side uses go/build/constraint; module resolution and go/build's comment-placement rules are not modelled; "
                "post-load tweaks of runtime, runtime/pprof, sync, syscall/js are outside the corpus.",
        "technique": "Lean 4 proof (matcher under extracted configuration = documented tag set) + regenerated facts obligation + differential correspondence",
    },
    "C14": {
        "text": "Lean theorems: the prelude's $decodeRune/$encodeRune (transcribed) equal Unicode Table 3-7 + Go's U+FFFD rule for all "
                "byte strings/positions/runes, decode∘encode round trip, range iteration = spec, string(x) of an integer operand of EVERY kind = encoding of its value (intToString_spec; the 64-bit case repaired by fix: 0ab99c1, old code = proved counterexample), []byte<->string on arbitrary slice windows, substring/index bounds, string literals survive compilation (literal_roundtrip). Tied to prelude.js by running the real "
                "functions under Node against the model on an exhaustive boundary-alphabet space plus random inputs.",
        "note": "Trusted: Lean kernel; the model is a hand transcription checked by differential execution (not proved equal to the JS); "
                "the spec is my reading of Unicode/Go spec; V8. The compiler's emission of string operations is covered by compiled "
                "programs only where stated in the evidence.",
        "technique": "Lean 4 proof (model = spec, unbounded) + differential correspondence model vs real prelude under Node",
    },
}
