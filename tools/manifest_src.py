BASELINE_OFF = ("cd /repo && export GOFLAGS=-mod=mod GOPROXY=off GOSUMDB=off GOTOOLCHAIN=local && "
                "go test -json -vet=off -count=1 -timeout 25m ./...")

HOOKS = {
    "guard": "verif",
    "enable": "go build -tags verif (the harness module /verif/harness replaces github.com/gopherjs/gopherjs by /repo)",
    "baseline_off_cmd": BASELINE_OFF,
    "source_commits": ["verif hook: expose the go/build context configured by goCtx (build/verif_hooks_c18.go)",
                       "verif hook: expose encodeString (compiler/verif_hooks_c14.go)",
                       "verif hook: expose the overlay augmentation entry points (build/verif_hooks_c12.go)"],
    "add_only": True,
}

ENGINES = [
    {"name": "lean4+correspondence", "path": "/verif/lean", "serves_properties": [],
     "kind_free_text": "Lean 4 models + theorems (lake project gv), core-only driver gvdriver, differential runs against the real "
                       "prelude under Node and the real compiler through the Go harness /verif/harness"},
]

NOTES = ("Every check: python3 run.py Cxx --tier quick|thorough. Lean theorems are rebuilt and their axioms audited on every run; "
         "the hand-written models are tied to /repo's working tree by differential runs (see DESIGN.md sections 2-3).")

NOT_APPLICABLE = {}

CHECKS = {
    "C12": {
        "text": "Lean theorems over a transcription of build.go's augmentOverlayFile/augmentOriginalFile/augmentOriginalImports/"
                "pruneImports/finalizeRemovals: for all file lists the merged declarations (names with provenance, signatures, var "
                "initialisers), their order, the import pruning rule, the nosync substitution and the init exception equal the documented "
                "directive rules (merge_names, order_preserved, values_untouched, imports_pruned, init_never_overridden, ...). Constant "
                "values: the full statement is false of the code (iota / implicit repetition shift) - proved counterexamples, partial "
                "theorems, two recorded known findings replayed against the real functions and go/types on every run. Tied by running "
                "the real functions (verif hook) on generated source pairs and on the 78 real natives overlays, plus the real "
                "parseAndAugment on natives packages.",
        "note": "Trusted: Lean kernel; hand model tied by differential runs; go/parser comment association and the directive regex are "
                "exercised, not modelled; 'the merged package type-checks' is observed with go/types, not proved. Known findings: "
                "C12-const-iota-shift, C12-const-initialiser-orphaned (proposed repair in fixes/, not applied).",
        "technique": "Lean 4 proof (model = documented rules, all file pairs) + differential correspondence through a verif hook + go/types oracle",
    },
    "C18": {
        "text": "Lean theorems: go/build's matchTag/goodOSArchFile/shouldBuild (transcribed), under the configuration GopherJS builds, "
                "satisfy a tag iff it is in the documented set (js, ecmascript, gc, gopherjs, netgo, purego, math_big_pure_go, go1.1..go1.20) "
                "or given with -tags, for every tag, expression and tag list; no later release tag; cgo never; std as js/wasm; a user tag "
                "only affects expressions that mention it. The configuration facts are re-extracted from the code on every run and a "
                "Lean obligation (decide) checks they equal the documented ones. Tied by importing generated package directories and "
                "GOROOT packages through the real build context and comparing the selected files with the model.",
        "note": "Trusted: Lean kernel; model of go/build's matcher is a transcription tied by differential runs; header parsing on the "
                "harness side uses go/build/constraint; module resolution and go/build's comment-placement rules are not modelled; "
                "post-load tweaks of runtime, runtime/pprof, sync, syscall/js are outside the corpus.",
        "technique": "Lean 4 proof (matcher under extracted configuration = documented tag set) + regenerated facts obligation + differential correspondence",
    },
    "C14": {
        "text": "Lean theorems: the prelude's $decodeRune/$encodeRune (transcribed) equal Unicode Table 3-7 + Go's U+FFFD rule for all "
                "byte strings/positions/runes, decode∘encode round trip, range iteration = spec. Tied to prelude.js by running the real "
                "functions under Node against the model on an exhaustive boundary-alphabet space plus random inputs.",
        "note": "Trusted: Lean kernel; the model is a hand transcription checked by differential execution (not proved equal to the JS); "
                "the spec is my reading of Unicode/Go spec; V8. The compiler's emission of string operations is covered by compiled "
                "programs only where stated in the evidence.",
        "technique": "Lean 4 proof (model = spec, unbounded) + differential correspondence model vs real prelude under Node",
    },
}
