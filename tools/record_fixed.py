#!/usr/bin/env python3
"""usage: record_fixed.py Cxx <n>  — records the last n `fix:` commits of /repo as fixed entries of property Cxx
(entry text = the commit subject; existing entries of the same commits are not duplicated)."""
import json, subprocess, sys
pid, n = sys.argv[1], int(sys.argv[2])
p = '/verif/known_findings.json'
j = json.load(open(p))
log = subprocess.run(['git', '-C', '/repo', 'log', '--format=%h %s', '-%d' % n], capture_output=True, text=True).stdout.strip().split('\n')
for l in reversed(log):
    h, msg = l.split(' ', 1)
    if not msg.startswith('fix:'):
        continue
    if any(h in x for x in j['fixed']):
        continue
    j['fixed'].append("fixed: property=%s %s %s" % (pid, h, msg[4:].strip()))
json.dump(j, open(p, 'w'), indent=1)
print(len(j['findings']), 'findings,', len(j['fixed']), 'fixed')
