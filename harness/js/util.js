'use strict';
function hexToStr(h) { // Go string = JS string with code units 0..255
  if (h === '-') return '';
  let s = '';
  for (let i = 0; i < h.length; i += 2) s += String.fromCharCode(parseInt(h.substr(i, 2), 16));
  return s;
}
function strToHex(s) {
  if (s.length === 0) return '-';
  let h = '';
  for (let i = 0; i < s.length; i++) {
    const c = s.charCodeAt(i);
    if (c > 255) return 'nonbyte:' + c;
    h += (c < 16 ? '0' : '') + c.toString(16);
  }
  return h;
}
function list(a) { return a.length === 0 ? '-' : Array.from(a).join(','); }
function parseList(s) { return s === '-' ? [] : s.split(',').map(Number); }
function isRuntimeError(e) { return e && e.$goRuntimeError === true; }
module.exports = { hexToStr, strToHex, list, parseList, isRuntimeError };
