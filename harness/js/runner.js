// Implementation-side runner: `node runner.js <repo> < ops` answers one canonical line per
// operation line by calling the real prelude (loaded fresh from <repo>).
'use strict';
const fs = require('fs');
const path = require('path');
const { loadPrelude } = require('./prelude_loader');

const repo = process.argv[2] || '/repo';
const topics = {};
function topic(name) {
  if (!topics[name]) {
    const f = path.join(__dirname, 'topics', name + '.js');
    if (!fs.existsSync(f)) return null;
    topics[name] = require(f)(repo, loadPrelude);
  }
  return topics[name];
}

const input = fs.readFileSync(0, 'utf8').split('\n');
const out = [];
for (const line of input) {
  if (line === '') continue;
  const parts = line.trim().split(/ +/);
  const t = topic(parts[0]);
  let ans;
  if (!t) ans = 'bad-topic';
  else {
    try { ans = t(parts.slice(1)); }
    catch (e) { ans = 'runner-error:' + String(e && e.message || e).replace(/\s+/g, '_'); }
  }
  out.push(ans);
  if (out.length >= 10000) { fs.writeSync(1, out.join('\n') + '\n'); out.length = 0; }
}
if (out.length) fs.writeSync(1, out.join('\n') + '\n');
