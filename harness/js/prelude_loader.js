// Loads the *current* prelude sources from <repo>/compiler/prelude in the order that
// compiler/prelude/prelude.go adds them, inside one function scope, and returns an
// evaluator `P(code)` that evaluates `code` inside that scope (so every `var $x` of the
// prelude is reachable, and can be reassigned: P("$throwRuntimeError = ...")).
'use strict';
const fs = require('fs');
const path = require('path');
const vm = require('vm');

function preludeOrder(repo) {
  const dir = path.join(repo, 'compiler', 'prelude');
  const go = fs.readFileSync(path.join(dir, 'prelude.go'), 'utf8');
  const embed = {};
  const re = /\/\/go:embed\s+(\S+)\s*\nvar\s+(\w+)\s+string/g;
  let m;
  while ((m = re.exec(go)) !== null) embed[m[2]] = m[1];
  const order = [];
  const re2 = /add\(`[^`]*`,\s*(\w+)\)/g;
  while ((m = re2.exec(go)) !== null) {
    if (!embed[m[1]]) throw new Error('prelude.go: no embed for ' + m[1]);
    order.push(path.join(dir, embed[m[1]]));
  }
  if (order.length === 0) throw new Error('prelude.go: no add() calls found');
  return order;
}

// opts: {random: ()=>number, now: ()=>number, setTimeout, clearTimeout, console}
function loadPrelude(repo, opts) {
  opts = opts || {};
  const files = preludeOrder(repo);
  let src = '';
  for (const f of files) src += fs.readFileSync(f, 'utf8') + '\n';
  const sandbox = {
    console: opts.console || console,
    require: require,
    process: process,
    TextDecoder: TextDecoder,
    setTimeout: opts.setTimeout || setTimeout,
    clearTimeout: opts.clearTimeout || clearTimeout,
  };
  sandbox.global = sandbox;
  const ctx = vm.createContext(sandbox);
  if (opts.random) vm.runInContext('Math', ctx).random = opts.random;
  if (opts.now) vm.runInContext('Date', ctx).now = opts.now;
  const wrapped = '(function(){' + src + '\nreturn function($$code){ return eval($$code); };})()';
  const P = vm.runInContext(wrapped, ctx, { filename: 'prelude-bundle.js' });
  // The runtime package normally installs this; panics become JS errors tagged for the harness.
  P('$throwRuntimeError = function(msg){ var e = new Error(msg); e.$goRuntimeError = true; throw e; }');
  return { P, ctx, files };
}

module.exports = { loadPrelude, preludeOrder };
