'use strict';
const U = require('../util');
module.exports = function (repo, loadPrelude) {
  const { P } = loadPrelude(repo);
  const decodeRune = P('$decodeRune'), encodeRune = P('$encodeRune'), stringToRunes = P('$stringToRunes');
  const runesToString = P('$runesToString'), substring = P('$substring'), copyString = P('$copyString');
  return function (a) {
    switch (a[0]) {
      case 'decode': { const r = decodeRune(U.hexToStr(a[1]), Number(a[2])); return r[0] + ' ' + r[1]; }
      case 'encode': return U.strToHex(encodeRune(Number(a[1])));
      case 'runes': return U.list(stringToRunes(U.hexToStr(a[1])));
      case 'range': { // the loop emitted by statements.go for `range string`
        const s = U.hexToStr(a[1]); const out = [];
        for (let i = 0; i < s.length;) { const r = decodeRune(s, i); out.push(i + ':' + r[0]); i += r[1]; }
        return out.length ? out.join(',') : '-';
      }
      case 'fromrunes': {
        const rs = U.parseList(a[1]);
        return U.strToHex(runesToString({ $array: Int32Array.from(rs), $offset: 0, $length: rs.length }));
      }
      case 'substring':
        try { return U.strToHex(substring(U.hexToStr(a[1]), Number(a[2]), Number(a[3]))); }
        catch (e) { if (U.isRuntimeError(e) && /slice bounds out of range/.test(e.message)) return 'panic:slice-bounds'; throw e; }
      case 'substringopen':
        try { return U.strToHex(substring(U.hexToStr(a[1]), Number(a[2]))); }
        catch (e) { if (U.isRuntimeError(e) && /slice bounds out of range/.test(e.message)) return 'panic:slice-bounds'; throw e; }
      case 'copy': {
        const n = Number(a[1]); const src = U.hexToStr(a[2]);
        const dst = { $array: new Uint8Array(n + 3).fill(0xEE), $offset: 2, $length: n };
        const k = copyString(dst, src);
        for (let i = 0; i < dst.$array.length; i++) { // must not write outside the window
          if ((i < 2 || i >= 2 + k) && dst.$array[i] !== 0xEE) return 'wrote-outside:' + i;
        }
        let h = ''; for (let i = 0; i < k; i++) h += String.fromCharCode(dst.$array[2 + i]);
        return k + ' ' + U.strToHex(h);
      }
      case 'bytes2str': {
        const arr = Uint8Array.from(Buffer.from(a[1] === '-' ? '' : a[1], 'hex'));
        return U.strToHex(P('$bytesToString')({ $array: arr, $offset: Number(a[2]), $length: Number(a[3]) }));
      }
      case 'str2bytes': return U.strToHex(String.fromCharCode.apply(null, P('$stringToBytes')(U.hexToStr(a[1]))));
      case 'jslit': { // ECMAScript string value of a literal text (evaluated by the engine)
        const lit = U.hexToStr(a[1]);
        let v;
        try { v = (0, eval)(lit); } catch (e) { return 'reject'; }
        if (typeof v !== 'string') return 'reject';
        return U.strToHex(v);
      }
    }
    return 'bad-op';
  };
};
