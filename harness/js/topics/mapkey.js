'use strict';
// C15: the REAL keyFor functions of /repo/compiler/prelude/types.js, called on values of types that are
// built with the real prelude constructors ($newType, $structType, $arrayType, $ptrType, $chanType, ...).
//   mapkey reset
//   mapkey deftype <tid> <strhex> <named 0|1> <type> [id] -> hex of typ.string ([id] is for the Lean side)
//   mapkey enum <arity> <maxlen> <arr|struct|iface-arr|iface-struct>
//        all tuples of <arity> strings over {$,\,a} up to length <maxlen>, as [n]string / struct{string...} keys (optionally
//        wrapped in interface{}), bucketed by the REAL key: -> ok <count> | collide <ncollisions> <value>|<value> ... (first 4)
//   mapkey typeid <tid>                                   -> typ.id of the registered type
//   mapkey key  <type> <value>                            -> n:<number> | b:<bool> | s:<hex>
//   mapkey pair <type> <value> <value>                    -> <key1> <key2> <same Map entry 0|1>
// Type tokens (comma separated, prefix): B I:<kind> L U F32 F64 C64 C128 S P,<t> H,<t> E A<n>,<t> T<n>,<t>*n N<tid>
// Value tokens: see lean/GV/Driver/C15.lean
const U = require('../util');
module.exports = function (repo, loadPrelude) {
  const { P } = loadPrelude(repo);
  const G = (n) => P(n);
  const kinds = {
    int: ['$Int', '$kindInt', 4], int8: ['$Int8', '$kindInt8', 1], int16: ['$Int16', '$kindInt16', 2], int32: ['$Int32', '$kindInt32', 4],
    uint: ['$Uint', '$kindUint', 4], uint8: ['$Uint8', '$kindUint8', 1], uint16: ['$Uint16', '$kindUint16', 2],
    uint32: ['$Uint32', '$kindUint32', 4], uintptr: ['$Uintptr', '$kindUintptr', 4],
  };
  let registry = {};   // tid -> type object
  let objects = {};    // obj id -> JS object (pointer / channel)
  let fieldSeq = 0;

  // ---- types -------------------------------------------------------------------------------------
  function parseType(toks) {
    const t = toks.shift();
    if (t === 'B') return G('$Bool');
    if (t === 'L') return G('$Int64');
    if (t === 'U') return G('$Uint64');
    if (t === 'F32') return G('$Float32');
    if (t === 'F64') return G('$Float64');
    if (t === 'C64') return G('$Complex64');
    if (t === 'C128') return G('$Complex128');
    if (t === 'S') return G('$String');
    if (t === 'E') return G('$emptyInterface');
    if (t.startsWith('I:')) return G(kinds[t.slice(2)][0]);
    if (t === 'P') return G('$ptrType')(parseType(toks));
    if (t === 'H') return G('$chanType')(parseType(toks), false, false);
    if (t[0] === 'N') { const ty = registry[t.slice(1)]; if (!ty) throw new Error('unknown tid ' + t); return ty; }
    if (t[0] === 'A') { const n = Number(t.slice(1)); return G('$arrayType')(parseType(toks), n); }
    if (t[0] === 'T') {
      const n = Number(t.slice(1)); const fields = [];
      for (let i = 0; i < n; i++) {
        const ft = parseType(toks);
        fields.push({ prop: 'F' + i, name: 'F' + i, embedded: false, exported: true, typ: ft, tag: '' });
      }
      return G('$structType')('', fields);
    }
    throw new Error('bad type token ' + t);
  }
  // a defined (named) type, the way the compiler emits it: $newType(size, kind, "pkg.Name", true, pkg, exported, ctor); T.init(...)
  function defineNamed(str, under) {
    const newType = G('$newType');
    const k = under.kind;
    let typ;
    if (k === G('$kindStruct')) {
      const fields = under.fields;
      typ = newType(0, k, str, true, 'main', true, function (...args) {
        this.$val = this;
        for (let i = 0; i < fields.length; i++) this[fields[i].prop] = args[i] !== undefined ? args[i] : fields[i].typ.zero();
      });
      typ.init('main', fields);
    } else if (k === G('$kindArray')) {
      typ = newType(under.size, k, str, true, 'main', true, null);
      typ.init(under.elem, under.len);
    } else if (k === G('$kindPtr')) {
      typ = newType(4, k, str, true, 'main', true, null);
      typ.init(under.elem);
    } else if (k === G('$kindChan')) {
      typ = newType(4, k, str, true, 'main', true, null);
      typ.init(under.elem, false, false);
    } else if (k === G('$kindInterface')) {
      typ = newType(8, k, str, true, 'main', true, null);
      typ.init([]);
    } else {
      typ = newType(under.size, k, str, true, 'main', true, null);
    }
    return typ;
  }

  // ---- values ------------------------------------------------------------------------------------
  function flt(t) {
    if (t === 'fn') return NaN;
    if (t === 'fz+') return 0;
    if (t === 'fz-') return -0;
    if (t === 'fi+') return Infinity;
    if (t === 'fi-') return -Infinity;
    if (t.startsWith('fh')) return Number(t.slice(2)) / 2;
    throw new Error('bad float token ' + t);
  }
  function mk(typ, toks) {
    const K = (n) => G(n);
    const k = typ.kind;
    const t = toks.shift();
    if (t === undefined) throw new Error('value too short');
    switch (k) {
      case K('$kindBool'): if (t !== 'b0' && t !== 'b1') throw new Error('bool expected'); return t === 'b1';
      case K('$kindInt'): case K('$kindInt8'): case K('$kindInt16'): case K('$kindInt32'):
      case K('$kindUint'): case K('$kindUint8'): case K('$kindUint16'): case K('$kindUint32'): case K('$kindUintptr'):
        if (t[0] !== 'i') throw new Error('int expected'); return Number(t.slice(1));
      case K('$kindInt64'): case K('$kindUint64'): {
        if (t[0] !== 'l') throw new Error('int64 expected');
        const p = t.slice(1).split(':'); return new typ(Number(p[0]), Number(p[1]));
      }
      case K('$kindFloat32'): case K('$kindFloat64'): return flt(t);
      case K('$kindComplex64'): case K('$kindComplex128'): {
        if (t !== 'c') throw new Error('complex expected');
        const re = flt(toks.shift()), im = flt(toks.shift()); return new typ(re, im);
      }
      case K('$kindString'): if (t[0] !== 's') throw new Error('string expected'); return U.hexToStr(t.slice(1));
      case K('$kindPtr'): case K('$kindChan'): {
        const id = t.slice(1);
        if (t[0] === 'z') return k === K('$kindChan') ? K('$chanNil') : typ.nil;
        if (t[0] !== 'r') throw new Error('ref expected');
        if (!objects[id]) {
          if (k === K('$kindChan')) objects[id] = new (K('$Chan'))(typ.elem, 0);
          else if (typ.elem.kind === K('$kindStruct')) objects[id] = new typ();
          else { let cell = typ.elem.zero(); objects[id] = new typ(() => cell, (v) => { cell = v; }); }
        }
        return objects[id];
      }
      case K('$kindInterface'): {
        if (t === 'n') return K('$ifaceNil');
        if (t[0] !== 'e') throw new Error('iface expected');
        const dt = registry[t.slice(1)]; if (!dt) throw new Error('unknown tid in value ' + t);
        const inner = mk(dt, toks);
        return dt.wrapped ? new dt(inner) : inner;
      }
      case K('$kindArray'): {
        if (t[0] !== 'a' || Number(t.slice(1)) !== typ.len) throw new Error('array of ' + typ.len + ' expected, got ' + t);
        const es = []; for (let i = 0; i < typ.len; i++) es.push(mk(typ.elem, toks));
        return K('$toNativeArray')(typ.elem.kind, es);
      }
      case K('$kindStruct'): {
        if (t[0] !== 't' || Number(t.slice(1)) !== typ.fields.length) throw new Error('struct expected');
        const fs = []; for (let i = 0; i < typ.fields.length; i++) fs.push(mk(typ.fields[i].typ, toks));
        return new typ.ptr(...fs);
      }
    }
    throw new Error('unsupported kind ' + k);
  }
  function value(typ, s) {
    const toks = s.split(',');
    const v = mk(typ, toks);
    if (toks.length) throw new Error('value too long');
    return v;
  }
  function show(k) {
    if (typeof k === 'number') return 'n:' + String(k);
    if (typeof k === 'boolean') return 'b:' + k;
    if (typeof k === 'string') return 's:' + U.strToHex(k);
    return 'other:' + typeof k;
  }

  return function (a) {
    switch (a[0]) {
      case 'reset': P('$idCounter = 0'); registry = {}; objects = {}; return 'ok';
      case 'deftype': {
        const under = parseType(a[4].split(','));
        const typ = a[3] === '1' ? defineNamed(U.hexToStr(a[2]), under) : under;
        registry[a[1]] = typ;
        return U.strToHex(typ.string);
      }
      case 'hash': {
        // mapkey hash <gridtype>: <gridtype> = i s e sl mp fn | a<n>,<t> | st<n>,(N|B|M),<t>,...  (N named, B blank `_`, M embedded field)
        //   -> <typ.comparable 0|1> <interface key> <struct{k interface{}} key> <[1]interface{} key>   each: key | panic | err:<msg>
        const toks = a[1].split(',');
        let seq = 0;
        const build = () => {
          const t = toks.shift();
          if (t === 'i') return G('$Int');
          if (t === 's') return G('$String');
          if (t === 'e') return G('$emptyInterface');
          if (t === 'sl') return G('$sliceType')(G('$Int'));
          if (t === 'mp') return G('$mapType')(G('$String'), G('$Int'));
          if (t === 'fn') return G('$funcType')([], [], false);
          if (t[0] === 'a') { const n = Number(t.slice(1)); return G('$arrayType')(build(), n); }
          if (t.startsWith('st')) {
            const n = Number(t.slice(2)); const fields = [];
            for (let i = 0; i < n; i++) {
              const k = toks.shift(); const ft = build();
              if (k === 'B') fields.push({ prop: '_$' + i, name: '_', embedded: false, exported: false, typ: ft, tag: '' });
              else if (k === 'M') fields.push({ prop: 'E' + i, name: 'E' + i, embedded: true, exported: true, typ: ft, tag: '' });
              else fields.push({ prop: 'F' + i, name: 'F' + i, embedded: false, exported: true, typ: ft, tag: '' });
            }
            return G('$structType')('main', fields);
          }
          throw new Error('bad grid type token ' + t);
        };
        const typ = build();
        if (toks.length) throw new Error('grid type too long');
        const z = typ.zero();
        const boxed = (typ.wrapped || typ.kind === G('$kindStruct')) ? new typ(z) : z;
        const E = G('$emptyInterface');
        const attempt = (f) => {
          try { f(); return 'key'; }
          catch (e) { if (U.isRuntimeError(e) && /^hash of unhashable type /.test(e.message)) return 'panic'; return 'err:' + String(e.message).replace(/\s+/g, '_').slice(0, 60); }
        };
        const SK = G('$structType')('main', [{ prop: 'k', name: 'k', embedded: false, exported: false, typ: E, tag: '' }]);
        const AK = G('$arrayType')(E, 1);
        return (typ.comparable ? '1' : '0') + ' ' + attempt(() => E.keyFor(boxed)) + ' ' +
          attempt(() => SK.keyFor(new SK.ptr(boxed))) + ' ' + attempt(() => AK.keyFor([boxed]));
      }
      case 'enum': {
        const arity = Number(a[1]), maxlen = Number(a[2]), shape = a[3];
        const alpha = ['$', '\\', 'a'];
        let strs = [''], cur = [''];
        for (let l = 1; l <= maxlen; l++) {
          const nxt = []; for (const x of cur) for (const c of alpha) nxt.push(x + c);
          cur = nxt; strs = strs.concat(nxt);
        }
        const S = G('$String'); const isArr = shape.endsWith('arr'); const wrap = shape.startsWith('iface');
        let typ;
        if (isArr) typ = G('$arrayType')(S, arity);
        else {
          const fields = [];
          for (let i = 0; i < arity; i++) fields.push({ prop: 'F' + i, name: 'F' + i, embedded: false, exported: true, typ: S, tag: '' });
          typ = G('$structType')('', fields);
        }
        const E = G('$emptyInterface');
        const n = strs.length; const idx = new Array(arity).fill(0);
        const tok = (ix) => (isArr ? 'a' : 't') + arity + ',' + ix.map(i => 's' + U.strToHex(strs[i])).join(',');
        const seen = new Map(); let count = 0, ncoll = 0; const shown = [];
        for (;;) {
          const es = idx.map(i => strs[i]);
          const v = isArr ? es : new typ.ptr(...es);
          const k = wrap ? E.keyFor(new typ(v)) : typ.keyFor(v);
          const prev = seen.get(k);
          if (prev === undefined) seen.set(k, idx.slice());
          else { ncoll++; if (shown.length < 4) shown.push(tok(prev) + '|' + tok(idx)); }
          count++;
          let p = arity - 1;
          while (p >= 0 && ++idx[p] === n) { idx[p] = 0; p--; }
          if (p < 0) break;
        }
        return ncoll === 0 ? 'ok ' + count : 'collide ' + ncoll + ' ' + shown.join(' ');
      }
      case 'typeid': { const ty = registry[a[1]]; if (!ty) throw new Error('unknown tid'); return String(ty.id); }
      case 'key': { const typ = parseType(a[1].split(',')); return show(typ.keyFor(value(typ, a[2]))); }
      case 'pair': {
        const typ = parseType(a[1].split(','));
        const v1 = value(typ, a[2]), v2 = value(typ, a[3]);
        const k1 = typ.keyFor(v1); const k2 = typ.keyFor(v2);
        const m = new Map(); m.set(k1, 1);
        return show(k1) + ' ' + show(k2) + ' ' + (m.has(k2) ? '1' : '0');
      }
    }
    return 'bad-op';
  };
};
