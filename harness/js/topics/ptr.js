'use strict';
// C07 — the REAL `$indexPtr` (types.js): element pointers of arrays / slices keep identity through the per-array
// (plain Array) or per-ArrayBuffer (typed array) cache, and their $get/$set pairs alias the element.
//   ptr index <t|p> <n> <off> <i> <j> <v>   p = &a[i]; q = &view[j] where view starts at `off` of the same storage
//                                           (typed: a.subarray(off); plain: the array itself with index off+j, as slices do)
module.exports = function (repo, loadPrelude) {
  const { P } = loadPrelude(repo);
  const Int = P('$Int'), Iface = P('$emptyInterface'), ptrType = P('$ptrType'), indexPtr = P('$indexPtr');
  const mkArray = P('(function(n){ return new Array(n); })');
  const mkTyped = P('(function(n){ return new Int32Array(n); })');
  const b = x => x ? '1' : '0';
  return function (a) {
    if (a[0] !== 'index') return 'bad-op';
    const k = a[1], n = Number(a[2]), off = Number(a[3]), i = Number(a[4]), j = Number(a[5]), v = Number(a[6]);
    const arr = k === 't' ? mkTyped(n) : mkArray(n);
    for (let x = 0; x < n; x++) arr[x] = x + 1;
    const PT = ptrType(k === 't' ? Int : Iface);
    const p = indexPtr(arr, i, PT);
    const q = k === 't' ? indexPtr(arr.subarray(off), j, PT) : indexPtr(arr, off + j, PT);
    p.$set(v);
    const g = q.$get();
    const again = indexPtr(arr, i, PT) === p;
    let count;
    if (k === 't') { const c = arr.buffer.$ptr; count = Object.keys(c[Object.keys(c)[0]]).length; } else count = Object.keys(arr.$ptr).length;
    return 'eq=' + b(p === q) + ' get=' + g + ' cell=' + arr[i] + ' again=' + b(again) + ' count=' + count;
  };
};
