'use strict';
// C02: the guard at the head of the real `$callDeferred` (compiler/prelude/goroutines.js:11-14) when a function with a
// pending `defer` leaves because a callee suspended (goroutine asleep): the function's `$deferred` list may sit ANYWHERE
// on the goroutine's deferStack (callees with their own pending defers are above it).
//   c02guard guard <depth> <pos>     depth 1..4 lists on the deferStack, pos = index of the function's own list counted
//                                    from the bottom (0 = bottom, depth-1 = top), or `absent`
// answer: `save` ($callDeferred returned: the function goes on to save its frame) | `throw:<value>` (it threw jsErr)
module.exports = function (repo, loadPrelude) {
  const { P } = loadPrelude(repo);
  const run = P('(function(stack, own) { var saved = $curGoroutine; ' +
    '$curGoroutine = { asleep: true, exit: false, deferStack: stack, panicStack: [] }; ' +
    'try { $callDeferred(own, null); return "save"; } catch (e) { return "throw:" + String(e); } ' +
    'finally { $curGoroutine = saved; } })');
  return function (a) {
    switch (a[0]) {
      case 'guard': {
        const depth = Number(a[1]);
        const stack = [];
        for (let i = 0; i < depth; i++) stack.push([[function () {}, []]]);   // every list holds one pending call
        const own = a[2] === 'absent' ? [[function () {}, []]] : stack[Number(a[2])];
        const before = stack.map(l => l.length).join(',');
        const ans = run(stack, own);
        // an asleep goroutine must not run or pop anything
        return ans + (stack.map(l => l.length).join(',') === before && stack.length === depth ? '' : ' stack-changed');
      }
      default: return 'bad-op';
    }
  };
};
