'use strict';
// C08: drives the REAL $callDeferred / $panic / $recover / $methodExpr of /repo's prelude with scripted
// "compiled functions" written exactly in the shape the compiler emits for functions with defer
// (compiler/functions.go:313-339, statements.go:371-373):
//   var $err = null; try { $deferred = []; $curGoroutine.deferStack.push($deferred); BODY
//   } catch(err) { $err = err; [return 0;] } finally { $callDeferred($deferred, $err); [if (!$curGoroutine.asleep) { return r; }] }
// A script is the mini-language of GV.Model.Defer (see GV/Driver/C08.lean for the syntax).
const fs = require('fs');
const path = require('path');
module.exports = function (repo, loadPrelude) {
  const { P } = loadPrelude(repo);
  P('$jsErrorPtr = function(o) { this.Object = o; this.$val = this; }');
  P('$checkForDeadlock = false');
  // shapes the compiler emits, read from its source text so that the harness follows the tree it is pointed at:
  //  - the forwarding method (functions.go proxyFunction): function(...$args) { ... return RECV.NAME(...$args); ... }
  //  - the callable pushed for `defer recover()` (expressions.go delegatedCall)
  const fsrc = fs.readFileSync(path.join(repo, 'compiler', 'functions.go'), 'utf8');
  const pm = /fun := fmt\.Sprintf\("(function\(\.\.\.\$args\) \{[^"]*\})", receiver, funName\)/.exec(fsrc);
  if (!pm) throw new Error('cannot extract proxyFunction from functions.go');
  const proxyTemplate = pm[1];
  if (!/%s\.%s\(\.\.\.\$args\)/.test(proxyTemplate)) throw new Error('unexpected proxyFunction shape: ' + proxyTemplate);
  const esrc = fs.readFileSync(path.join(repo, 'compiler', 'expressions.go'), 'utf8');
  const rm = /fun\.Name == "recover" \{[\s\S]{0,1500}?return fc\.formatExpr\("(function\(\) \{[^"]*\})"\)/.exec(esrc);
  const deferRecoverCallable = rm ? rm[1] : 'function() { $recover(); }';
  //  - the body of runtime.Goexit (compiler/natives/src/runtime/runtime.go)
  const rsrc = fs.readFileSync(path.join(repo, 'compiler', 'natives', 'src', 'runtime', 'runtime.go'), 'utf8');
  const gm = /func Goexit\(\) \{([\s\S]*?)\n\}/.exec(rsrc);
  if (!gm) throw new Error('cannot find runtime.Goexit');
  let goexitBody;
  if (/js\.Global\.Call\("\$goexit"\)/.test(gm[1])) goexitBody = '$goexit();';
  else if (/Set\("exit", true\)/.test(gm[1]) && /Call\("\$throw", nil\)/.test(gm[1])) goexitBody = '$curGoroutine.exit = true; $throw(null);';
  else throw new Error('unexpected runtime.Goexit body: ' + gm[1]);
  function how(h, f) {
    if (h === 'd') return 'F[' + f + ']';
    if (h === 'm') return '$methodExpr(TY, "f' + f + '")';
    if (h === 'p') return 'PW[' + f + ']';
    throw new Error('bad how ' + h);
  }
  function compileFunc(i, named, stmts) {
    let hasDefer = false;
    const body = [];
    for (const t of stmts) {
      if (t === '') continue;
      const k = t[0];
      if (t === 'R') { hasDefer = true; body.push('$deferred.push([' + deferRecoverCallable + ', []]);'); }
      else if (t === 'r') body.push('x = $recover(); T.push(x === $ifaceNil ? "rec-" : "rec" + V(x));');
      else if (t === 't') body.push('return r.v;');
      else if (t === 'g') body.push('Goexit();');
      else if (k === 'p') body.push('$panic(new $String("' + t.slice(1) + '"));');
      else if (k === 'x') body.push('throw new TypeError("' + t.slice(1) + '");');
      else if (k === 's') body.push('r.v = ' + Number(t.slice(1)) + ';');
      else if (k === 'o') body.push('outer.v = ' + Number(t.slice(1)) + ';');
      else if (k === 'c') {
        const h = t[1], f = Number(t.slice(2));
        const args = h === 'm' ? '(RECV, 0, r)' : '(0, r)';
        body.push('x = ' + how(h, f) + args + '; T.push("res' + f + ':" + (x === undefined ? 0 : x));');
      } else if (k === 'd') {
        hasDefer = true;
        const h = t[1]; const [f, a] = t.slice(2).split('=');
        const av = a === 'r' ? 'r.v' : String(Number(a.slice(1)));
        const args = h === 'm' ? '[RECV, ' + av + ', r]' : '[' + av + ', r]';
        body.push('$deferred.push([' + how(h, Number(f)) + ', ' + args + ']);');
      } else throw new Error('bad stmt ' + t);
    }
    let src = 'F[' + i + '] = function f' + i + '$1(arg, outer) {\n var r, x, $deferred;\n';
    const pre = ' r = {v: 0}; T.push("run' + i + ':" + arg);\n';
    if (!hasDefer) {
      src += pre + ' ' + body.join('\n ') + '\n return r.v;\n};\n';
    } else {
      src += ' /* */ var $err = null; try { $deferred = []; $curGoroutine.deferStack.push($deferred);\n' + pre + ' ' +
        body.join('\n ') + '\n return r.v;\n' +
        ' /* */ } catch(err) { $err = err;' + (named ? '' : ' return 0;') + ' } finally { $callDeferred($deferred, $err);' +
        (named ? ' if (!$curGoroutine.asleep) { return  r.v; }' : '') + ' }\n};\n';
    }
    src += 'TY.prototype["f' + i + '"] = F[' + i + '];\n';
    // forwarding method as the compiler generates for pointer receivers of non-struct named types / promoted methods
    src += 'PW[' + i + '] = ' + proxyTemplate.replace('%s.%s(...$args)', 'F[' + i + '](...$args)') + ';\n';
    return src;
  }
  function compile(prog) {
    const funcs = prog.split('|');
    let src = '(function() {\n var T = [], F = [], PW = [], TY = function() {}, RECV = new TY();\n' +
      ' var V = function(x) { if (x.constructor === $String) { return x.$val; } if (x.Object !== undefined) { return x.Object.message; } return "?"; };\n' +
      ' var Goexit = function Goexit$1() { ' + goexitBody + ' };\n';
    funcs.forEach((f, i) => {
      const [k, b] = f.split(':');
      src += compileFunc(i, k === 'n', (b || '').split(','));
    });
    // the goroutine is started by the REAL $go / $schedule / $goroutine (goroutines.js:128-167)
    src += ' return function($$depth) {\n' +
      '  var g = null, out, done = false;\n' +
      '  $panicStackDepth = null; $stackDepthOffset = 0; $curGoroutine = $noGoroutine; $scheduled.length = 0;\n' +
      '  var DEEP = function DEEP(n) { if (n > 0) { DEEP(n - 1); return; } F[0](0, {v: 0}); };\n' +
      '  try { $go(function() { g = $curGoroutine; DEEP($$depth); done = true; }, []); out = done ? "normal" : "goexit"; }\n' +
      '  catch (err) { if (err instanceof Error) { out = "panic" + err.message; } else if (err === null) { out = "stuck1"; } else { out = "stuck?" + String(err); } }\n' +
      '  finally { $curGoroutine = $noGoroutine; }\n' +
      '  return { trace: T, out: out, state: "off=" + $stackDepthOffset + " psd=" + $panicStackDepth + " ps=" + g.panicStack.length + " ds=" + g.deferStack.length };\n' +
      ' };\n})()';
    return P(src);
  }
  let probe = null;
  return function (a) {
    switch (a[0]) {
      case 'emuat': {
        const r = compile(a[2])(Number(a[1]));
        return (r.trace.length ? r.trace.join(',') : '-') + ' ' + r.out;
      }
      case 'depthprobe': { // $getStackDepth() at nested call depth d minus the reading at depth 0
        if (!probe) probe = P('(function() { var rec = function(n) { if (n > 0) { return rec(n - 1); } return $getStackDepth(); }; return rec; })()');
        return String(probe(Number(a[1])) - probe(0));
      }
      case 'emu': case 'ref': {
        const r = compile(a[1])(0);
        return (r.trace.length ? r.trace.join(',') : '-') + ' ' + r.out;
      }
      case 'emustate': return compile(a[1])(0).state;
    }
    return 'bad-op';
  };
};
