'use strict';
// C08: drives the REAL $callDeferred / $panic / $recover / $methodExpr of /repo's prelude with scripted
// "compiled functions" written exactly in the shape the compiler emits for functions with defer
// (compiler/functions.go:313-339, statements.go:371-373):
//   var $err = null; try { $deferred = []; $curGoroutine.deferStack.push($deferred); BODY
//   } catch(err) { $err = err; [return 0;] } finally { $callDeferred($deferred, $err); [if (!$curGoroutine.asleep) { return r; }] }
// A script is the mini-language of GV.Model.Defer (see GV/Driver/C08.lean for the syntax).
module.exports = function (repo, loadPrelude) {
  const { P } = loadPrelude(repo);
  P('$jsErrorPtr = function(o) { this.Object = o; this.$val = this; }');
  function how(h, f) {
    if (h === 'd') return 'F[' + f + ']';
    if (h === 'm') return '$methodExpr(TY, "f' + f + '")';
    if (h === 'p') return 'PW[' + f + ']';
    throw new Error('bad how ' + h);
  }
  function compileFunc(i, named, stmts) {
    let hasDefer = false;
    const body = [];
    for (const t of stmts) {
      if (t === '') continue;
      const k = t[0];
      if (t === 'R') { hasDefer = true; body.push('$deferred.push([function() { $recover(); }, []]);'); }
      else if (t === 'r') body.push('x = $recover(); T.push(x === $ifaceNil ? "rec-" : "rec" + V(x));');
      else if (t === 't') body.push('return r.v;');
      else if (t === 'g') body.push('Goexit();');
      else if (k === 'p') body.push('$panic(new $String("' + t.slice(1) + '"));');
      else if (k === 'x') body.push('throw new TypeError("' + t.slice(1) + '");');
      else if (k === 's') body.push('r.v = ' + Number(t.slice(1)) + ';');
      else if (k === 'o') body.push('outer.v = ' + Number(t.slice(1)) + ';');
      else if (k === 'c') {
        const h = t[1], f = Number(t.slice(2));
        const args = h === 'm' ? '(RECV, 0, r)' : '(0, r)';
        body.push('x = ' + how(h, f) + args + '; T.push("res' + f + ':" + (x === undefined ? 0 : x));');
      } else if (k === 'd') {
        hasDefer = true;
        const h = t[1]; const [f, a] = t.slice(2).split('=');
        const av = a === 'r' ? 'r.v' : String(Number(a.slice(1)));
        const args = h === 'm' ? '[RECV, ' + av + ', r]' : '[' + av + ', r]';
        body.push('$deferred.push([' + how(h, Number(f)) + ', ' + args + ']);');
      } else throw new Error('bad stmt ' + t);
    }
    let src = 'F[' + i + '] = function f' + i + '$1(arg, outer) {\n var r, x, $deferred;\n';
    const pre = ' r = {v: 0}; T.push("run' + i + ':" + arg);\n';
    if (!hasDefer) {
      src += pre + ' ' + body.join('\n ') + '\n return r.v;\n};\n';
    } else {
      src += ' /* */ var $err = null; try { $deferred = []; $curGoroutine.deferStack.push($deferred);\n' + pre + ' ' +
        body.join('\n ') + '\n return r.v;\n' +
        ' /* */ } catch(err) { $err = err;' + (named ? '' : ' return 0;') + ' } finally { $callDeferred($deferred, $err);' +
        (named ? ' if (!$curGoroutine.asleep) { return  r.v; }' : '') + ' }\n};\n';
    }
    src += 'TY.prototype["f' + i + '"] = F[' + i + '];\n';
    // forwarding method as the compiler generates for pointer receivers of non-struct named types / promoted methods
    src += 'PW[' + i + '] = function(...$args) { return F[' + i + '](...$args); };\n';
    return src;
  }
  function compile(prog) {
    const funcs = prog.split('|');
    let src = '(function() {\n var T = [], F = [], PW = [], TY = function() {}, RECV = new TY();\n' +
      ' var V = function(x) { if (x.constructor === $String) { return x.$val; } if (x.Object !== undefined) { return x.Object.message; } return "?"; };\n' +
      ' var Goexit = function Goexit$1() { $curGoroutine.exit = true; $throw(null); };\n';
    funcs.forEach((f, i) => {
      const [k, b] = f.split(':');
      src += compileFunc(i, k === 'n', (b || '').split(','));
    });
    src += ' return function() {\n' +
      '  var g = { asleep: false, exit: false, deferStack: [], panicStack: [] }, out;\n' +
      '  $curGoroutine = g; $panicStackDepth = null; $stackDepthOffset = 0;\n' +
      '  try { (function $goroutine() { F[0](0, {v: 0}); })(); out = "normal"; }\n' +
      '  catch (err) { if (g.exit) { out = "goexit"; } else if (err instanceof Error) { out = "panic" + err.message; } else if (err === null) { out = "stuck1"; } else { out = "stuck?" + String(err); } }\n' +
      '  finally { $curGoroutine = $noGoroutine; }\n' +
      '  return { trace: T, out: out, state: "off=" + $stackDepthOffset + " psd=" + $panicStackDepth + " ps=" + g.panicStack.length + " ds=" + g.deferStack.length };\n' +
      ' };\n})()';
    return P(src);
  }
  return function (a) {
    switch (a[0]) {
      case 'emu': case 'ref': {
        const r = compile(a[1])();
        return (r.trace.length ? r.trace.join(',') : '-') + ' ' + r.out;
      }
      case 'emustate': return compile(a[1])().state;
    }
    return 'bad-op';
  };
};
