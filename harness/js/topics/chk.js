'use strict';
// C08 tie (b): the REAL prelude run-time checks ($subslice, $substring, $makeSlice, $sliceToGoArray, $interfaceIsEqual,
// $assertType, $close, $send) and the inline index check text of compiler/utils.go `rangeCheck`, on given operands.
const fs = require('fs');
const path = require('path');
module.exports = function (repo, loadPrelude) {
  const { P } = loadPrelude(repo);
  const isRT = e => e && e.$goRuntimeError === true;
  P('$packages["runtime"] = { TypeAssertionError: { ptr: function() { this.$tae = true; } }, _type: { ptr: function() {} } }; $packages["runtime"]._type.ptr.nil = {};');
  const sliceT = P('$sliceType($Int)'), mapT = P('$mapType($Int, $Int)');
  const mk = (len, cap) => P('$makeSlice')(sliceT, len, cap);
  const U = s => (s === '-' ? undefined : Number(s));
  // the index check the compiler emits: extracted from the source text of rangeCheck (non-constant index, slice)
  let indexFn = null;
  function getIndexFn() {
    if (indexFn) return indexFn;
    const src = fs.readFileSync(path.join(repo, 'compiler', 'utils.go'), 'utf8');
    const m1 = /check := "([^"]*)" \+ lengthProp/.exec(src);
    const m2 = /check = "([^"]*)" \+ check \+ "([^"]*)"/.exec(src);
    const m3 = /return "\(" \+ check \+ `([^`]*)` \+ pattern \+ "\)"/.exec(src);
    if (!m1 || !m2 || !m3) throw new Error('cannot extract rangeCheck from utils.go');
    const text = '(' + m2[1] + m1[1] + '$length' + m2[2] + m3[1] + '%2f' + ')';
    const js = text.replace(/%2f/g, 'i').replace(/%1e/g, 'x');
    indexFn = P('(function(x, i) { return ' + js + '; })');
    return indexFn;
  }
  const values = {};
  function iface(s) {
    if (s === 'nil') return P('$ifaceNil');
    const [t, , v] = s.split(':');
    switch (t) {
      case '1': return new (P('$Int'))(Number(v));
      case '2': return new (P('$Int32'))(Number(v));
      case '3': return values['s' + v] || (values['s' + v] = mk(1, 1));
      case '4': return values['m' + v] || (values['m' + v] = new mapT(new Map()));
    }
    throw new Error('bad iface ' + s);
  }
  const typeOf = t => ({ 1: P('$Int'), 2: P('$Int32'), 3: sliceT, 4: mapT })[t];
  function guard(f) {
    try { return f(); } catch (e) {
      if (isRT(e)) return 'panic';
      if (e && typeof e.message === 'string' && /\[object Object\]/.test(e.message)) return 'panic'; // $panic(TypeAssertionError) reaching the top
      throw e;
    }
  }
  // ---- types of the grid language built with the REAL constructors ($arrayType, $structType, $sliceType, ...) ----
  let tyCounter = 0;
  function buildTy(toks) { // prefix notation, consumes tokens
    const t = toks.shift();
    switch (t[0]) {
      case 'i': return P('$Int');
      case 's': return P('$String');
      case 'e': return P('$emptyInterface');
      case 'S': return sliceT;
      case 'M': return mapT;
      case 'F': return P('$funcType')([], [], false);
      case 'A': return P('$arrayType')(buildTy(toks), Number(t.slice(1)));
      case 'T': {
        const k = Number(t.slice(1)); const fields = [];
        for (let i = 0; i < k; i++) {
          const kind = toks.shift(); const typ = buildTy(toks);
          if (kind === 'n') fields.push({ prop: 'f' + i, name: 'f' + i, embedded: false, exported: false, typ: typ, tag: '' });
          else if (kind === 'b') fields.push({ prop: '_$' + i, name: '_', embedded: false, exported: false, typ: typ, tag: '' });
          else if (kind === 'm') fields.push({ prop: 'E' + i, name: 'E' + i, embedded: true, exported: true, typ: typ, tag: '' });
          else throw new Error('bad field kind ' + kind);
        }
        return P('$structType')('main', fields);
      }
    }
    throw new Error('bad type token ' + t);
  }
  const tyOf = str => buildTy(str.split(','));
  const boxed = typ => new typ(typ.zero());   // an interface value holding the zero value of a wrapped (struct / array) type
  return function (a) {
    switch (a[0]) {
      case 'comparable': return String(tyOf(a[1]).comparable);
      case 'ifaceeqty': return guard(() => { const t = tyOf(a[1]); return String(P('$interfaceIsEqual')(boxed(t), boxed(t))); });
      case 'keyfor': return guard(() => { const t = tyOf(a[1]); const k = P('$emptyInterface').keyFor(boxed(t)); return typeof k === 'string' ? 'ok' : 'notstring'; });
      case 'index': return guard(() => { const s = mk(Math.max(0, Number(a[1])), Math.max(0, Number(a[1]))); getIndexFn()(s, Number(a[2])); return a[2]; });
      case 'subslice': return guard(() => {
        const s = mk(Number(a[1]), Number(a[2]));
        const r = P('$subslice')(s, Number(a[3]), U(a[4]), U(a[5]));
        return r.$length + ':' + r.$capacity + ':' + (r.$offset - s.$offset);
      });
      case 'substring': return guard(() => String(P('$substring')('x'.repeat(Number(a[1])), Number(a[2]), U(a[3])).length));
      case 'makeslice': return guard(() => { const r = P('$makeSlice')(sliceT, Number(a[1]), U(a[2])); return r.$length + ':' + r.$capacity; });
      case 'slice2arr': return guard(() => { P('$sliceToGoArray')(mk(Number(a[1]), Number(a[1]) + 1), P('$ptrType')(P('$arrayType')(P('$Int'), Number(a[2])))); return 'ok'; });
      case 'close': case 'send': return guard(() => {
        const nil = P('$chanNil');
        let ch = nil;
        if (a[1] !== 'nil') { ch = new (P('$Chan'))(P('$Int'), 1); if (a[1] === 'closed') P('$close')(ch); }
        try { if (a[0] === 'close') P('$close')(ch); else P('$send')(ch, 1); } finally { nil.$closed = false; }
        return 'ok';
      });
      case 'ifaceeq': return guard(() => String(P('$interfaceIsEqual')(iface(a[1]), iface(a[2]))));
      case 'assert': return guard(() => { const r = P('$assertType')(iface(a[1]), typeOf(a[2]), false); return String(typeof r === 'number' ? r : (r !== undefined && r !== null ? a[1].split(':')[2] : 'undefined')); });
    }
    return 'bad-op';
  };
};
