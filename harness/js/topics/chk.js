'use strict';
// C08 tie (b): the REAL prelude run-time checks ($subslice, $substring, $makeSlice, $sliceToGoArray, $interfaceIsEqual,
// $assertType, $close, $send) and the inline index check text of compiler/utils.go `rangeCheck`, on given operands.
const fs = require('fs');
const path = require('path');
module.exports = function (repo, loadPrelude) {
  const { P } = loadPrelude(repo);
  const isRT = e => e && e.$goRuntimeError === true;
  P('$packages["runtime"] = { TypeAssertionError: { ptr: function() { this.$tae = true; } }, _type: { ptr: function() {} } }; $packages["runtime"]._type.ptr.nil = {};');
  const sliceT = P('$sliceType($Int)'), mapT = P('$mapType($Int, $Int)');
  const mk = (len, cap) => P('$makeSlice')(sliceT, len, cap);
  const U = s => (s === '-' ? undefined : Number(s));
  // the index check the compiler emits: extracted from the source text of rangeCheck (non-constant index, slice)
  let indexFn = null;
  function getIndexFn() {
    if (indexFn) return indexFn;
    const src = fs.readFileSync(path.join(repo, 'compiler', 'utils.go'), 'utf8');
    const m1 = /check := "([^"]*)" \+ lengthProp/.exec(src);
    const m2 = /check = "([^"]*)" \+ check \+ "([^"]*)"/.exec(src);
    const m3 = /return "\(" \+ check \+ `([^`]*)` \+ pattern \+ "\)"/.exec(src);
    if (!m1 || !m2 || !m3) throw new Error('cannot extract rangeCheck from utils.go');
    const text = '(' + m2[1] + m1[1] + '$length' + m2[2] + m3[1] + '%2f' + ')';
    const js = text.replace(/%2f/g, 'i').replace(/%1e/g, 'x');
    indexFn = P('(function(x, i) { return ' + js + '; })');
    return indexFn;
  }
  const values = {};
  function iface(s) {
    if (s === 'nil') return P('$ifaceNil');
    const [t, , v] = s.split(':');
    switch (t) {
      case '1': return new (P('$Int'))(Number(v));
      case '2': return new (P('$Int32'))(Number(v));
      case '3': return values['s' + v] || (values['s' + v] = mk(1, 1));
      case '4': return values['m' + v] || (values['m' + v] = new mapT(new Map()));
    }
    throw new Error('bad iface ' + s);
  }
  const typeOf = t => ({ 1: P('$Int'), 2: P('$Int32'), 3: sliceT, 4: mapT })[t];
  function guard(f) {
    try { return f(); } catch (e) {
      if (isRT(e)) return 'panic';
      if (e && typeof e.message === 'string' && /\[object Object\]/.test(e.message)) return 'panic'; // $panic(TypeAssertionError) reaching the top
      throw e;
    }
  }
  return function (a) {
    switch (a[0]) {
      case 'index': return guard(() => { const s = mk(Math.max(0, Number(a[1])), Math.max(0, Number(a[1]))); getIndexFn()(s, Number(a[2])); return a[2]; });
      case 'subslice': return guard(() => {
        const s = mk(Number(a[1]), Number(a[2]));
        const r = P('$subslice')(s, Number(a[3]), U(a[4]), U(a[5]));
        return r.$length + ':' + r.$capacity + ':' + (r.$offset - s.$offset);
      });
      case 'substring': return guard(() => String(P('$substring')('x'.repeat(Number(a[1])), Number(a[2]), U(a[3])).length));
      case 'makeslice': return guard(() => { const r = P('$makeSlice')(sliceT, Number(a[1]), U(a[2])); return r.$length + ':' + r.$capacity; });
      case 'slice2arr': return guard(() => { P('$sliceToGoArray')(mk(Number(a[1]), Number(a[1]) + 1), P('$ptrType')(P('$arrayType')(P('$Int'), Number(a[2])))); return 'ok'; });
      case 'close': case 'send': return guard(() => {
        const nil = P('$chanNil');
        let ch = nil;
        if (a[1] !== 'nil') { ch = new (P('$Chan'))(P('$Int'), 1); if (a[1] === 'closed') P('$close')(ch); }
        try { if (a[0] === 'close') P('$close')(ch); else P('$send')(ch, 1); } finally { nil.$closed = false; }
        return 'ok';
      });
      case 'ifaceeq': return guard(() => String(P('$interfaceIsEqual')(iface(a[1]), iface(a[2]))));
      case 'assert': return guard(() => { const r = P('$assertType')(iface(a[1]), typeOf(a[2]), false); return String(typeof r === 'number' ? r : (r !== undefined && r !== null ? a[1].split(':')[2] : 'undefined')); });
    }
    return 'bad-op';
  };
};
