'use strict';
// C09 — the REAL prelude type machinery ($newType, the canonicalising constructors, $methodSet, $assertType,
// $interfaceIsEqual) driven by a script that builds a type family exactly as the compiler emits it
// (`X = $newType(...)`, `X.methods = [...]`, `X.init(...)`, `$structType(...)`, …) and then probes it.
//   types fam <op>;<op>;…      answers  <ans>;<ans>;…
// A fresh prelude is loaded for every family (caches and $typeIDCounter start from the prelude's initial state).
const U = require('../util');
const fs = require('fs');
const path = require('path');
const vm = require('vm');

module.exports = function (repo, loadPrelude) {
  // compile the prelude source once; evaluate it in a fresh context per family
  const { preludeOrder } = require('../prelude_loader');
  let src = '';
  for (const f of preludeOrder(repo)) src += fs.readFileSync(f, 'utf8') + '\n';
  const wrapped = '(function(){' + src + '\nreturn function($$code){ return eval($$code); };})()';
  const script = new vm.Script(wrapped, { filename: 'prelude-bundle.js' });
  function fresh() {
    const sandbox = { console, require, process, TextDecoder, setTimeout, clearTimeout };
    sandbox.global = sandbox;
    const ctx = vm.createContext(sandbox);
    const P = script.runInContext(ctx);
    P('$throwRuntimeError = function(msg){ var e = new Error(msg); e.$goRuntimeError = true; throw e; }');
    return P;
  }
  const BASIC = ['$Bool', '$Int', '$Int8', '$Int16', '$Int32', '$Int64', '$Uint', '$Uint8', '$Uint16', '$Uint32', '$Uint64',
    '$Uintptr', '$Float32', '$Float64', '$Complex64', '$Complex128', '$String', '$UnsafePointer', '$emptyInterface', '$error'];
  const KIND = { 17: 'Array', 18: 'Chan', 19: 'Func', 20: 'Interface', 21: 'Map', 22: 'Ptr', 23: 'Slice', 25: 'Struct' };

  function runFamily(scriptText) {
    const P = fresh();
    const env = {
      newType: P('$newType'), arrayType: P('$arrayType'), chanType: P('$chanType'), funcType: P('$funcType'),
      interfaceType: P('$interfaceType'), mapType: P('$mapType'), ptrType: P('$ptrType'), sliceType: P('$sliceType'),
      structType: P('$structType'), methodSet: P('$methodSet'), assertType: P('$assertType'), ifaceNil: P('$ifaceNil'),
      interfaceIsEqual: P('$interfaceIsEqual'), arrayPtrCtor: P('$arrayPtrCtor'),
    };
    const names = new Map();   // type object -> canonical name
    const byName = {};
    BASIC.forEach((n, i) => { const t = P(n); names.set(t, 'b' + i); byName['b' + i] = t; });
    { const t = P('$error').methods[0].typ; names.set(t, 'b20'); byName['b20'] = t; }
    if (P('$typeIDCounter') !== 21) return 'unexpected-initial-type-count:' + P('$typeIDCounter');
    const ref = (r) => { const t = byName[r]; if (t === undefined) throw new Error('bad ref ' + r); return t; };
    const nameOf = (t) => names.has(t) ? names.get(t) : '?';
    const bind = (k, t) => { byName['h' + k] = t; if (!names.has(t)) names.set(t, 'h' + k); return names.get(t); };
    const refs = (s) => s === '-' ? [] : s.split(',').map(ref);
    const methods = (s) => s === '-' ? [] : s.split(',').map(m => {
      const p = m.split('/'); const nm = U.hexToStr(p[1]);
      return { prop: nm, name: nm, pkg: U.hexToStr(p[0]), typ: ref(p[2]) };
    });
    const fields = (s) => s === '-' ? [] : s.split(',').map(f => {
      const p = f.split('/'); const nm = U.hexToStr(p[0]);
      return { prop: nm, name: nm, embedded: p[1] === '1', exported: p[2] === '1', typ: ref(p[3]), tag: U.hexToStr(p[4]) };
    });
    const pool = {};
    let shared = {};
    function structCtor(nf) {
      return function (...args) { this.$val = this; this.$args = args; };
    }
    // arguments of a constructor / init call
    function ctorArgs(a) { // a = [letter, ...]
      switch (a[0]) {
        case 'A': return [ref(a[1]), Number(a[2])];
        case 'C': return [ref(a[1]), a[2] === '1', a[3] === '1'];
        case 'F': return [refs(a[1]), refs(a[2]), a[3] === '1'];
        case 'I': return [methods(a[1])];
        case 'M': return [ref(a[1]), ref(a[2])];
        case 'P': return [ref(a[1])];
        case 'S': return [ref(a[1])];
        case 'T': return [U.hexToStr(a[1]), fields(a[2])];
      }
      throw new Error('bad ctor ' + a[0]);
    }
    const CT = { A: env.arrayType, C: env.chanType, F: env.funcType, I: env.interfaceType, M: env.mapType, P: env.ptrType, S: env.sliceType, T: env.structType };
    // run-time values for $interfaceIsEqual
    function payload(t, p) {
      const c = p[0];
      if (c === 'i') return Number(p.slice(1));
      if (c === 's') return U.hexToStr(p.slice(1));
      if (c === 'p') { const q = p.slice(1).split('_'); return new t(Number(q[0]), Number(q[1])); }
      if (c === 'r') {
        const key = p + '@' + t.id;
        if (!pool[key]) {
          if (t.kind === 22) pool[key] = new t(() => 0, () => { });
          else if (t.kind === 23) pool[key] = new t([]);
          else pool[key] = { $poolObject: key };
        }
        return pool[key];
      }
      if (c === 't') {
        const parts = splitTop(p.slice(2, -1));
        if (t.kind === 17) return parts.map(x => payload(t.elem, x));
        const o = new t.ptr();
        t.fields.forEach((f, i) => { o[f.prop] = payload(f.typ, parts[i]); });
        return o;
      }
      if (c === 'v') return ifaceVal(p.slice(2, -1));
      if (c === 'f') return p === 'fN' ? NaN : Number(p.slice(1));
      if (c === 'c') { const q = p.slice(1).split('_').map(x => x === 'N' ? NaN : Number(x)); return new t(q[0], q[1]); }
      if (c === 'w') { // w<k>[val]: ONE boxed interface value per (k, val), shared by every occurrence of the same token within
        // the operation (the generator may draw the same k with two different payloads: those are two values)
        const i = p.indexOf('['); const key = p;
        if (!(key in shared)) shared[key] = ifaceVal(p.slice(i + 1, -1));
        return shared[key];
      }
      throw new Error('bad payload ' + p);
    }
    function splitTop(s) { // split on '.' at bracket depth 0
      const out = []; let d = 0, cur = '';
      for (const ch of s) {
        if (ch === '[') d++; if (ch === ']') d--;
        if (ch === '.' && d === 0) { out.push(cur); cur = ''; } else cur += ch;
      }
      if (s.length) out.push(cur);
      return out;
    }
    function ifaceVal(v) {
      if (v === 'n') return env.ifaceNil;
      const k = v.indexOf('~'); const t = ref(v.slice(0, k)); const raw = payload(t, v.slice(k + 1));
      return t.wrapped ? new t(raw) : raw;
    }

    const out = [];
    const ops = scriptText.split(';');
    for (let k = 0; k < ops.length; k++) {
      const a = ops[k].split(':');
      let ans;
      switch (a[0]) {
        case 'N': {
          const kind = Number(a[1]);
          let ctor = null;
          if (kind === 25) ctor = structCtor();
          const t = env.newType(0, kind, U.hexToStr(a[2]), a[3] === '1', U.hexToStr(a[4]), true, ctor);
          ans = '=' + bind(k, t); break;
        }
        case 'A': case 'C': case 'F': case 'I': case 'M': case 'P': case 'S': case 'T':
          ans = '=' + bind(k, CT[a[0]].apply(null, ctorArgs(a))); break;
        case 'i': { const t = ref(a[1]); t.init.apply(null, ctorArgs(a.slice(2))); ans = 'ok'; break; }
        case 'm': ref(a[1]).methods = methods(a[2]); ans = 'ok'; break;
        case 's': ans = U.strToHex(ref(a[1]).string); break;
        case 'k': ans = ref(a[1]).comparable ? '1' : '0'; break;
        case 'q': {
          const ms = env.methodSet(ref(a[1]));
          ans = ms.length ? ms.map(m => U.strToHex(m.pkg) + '/' + U.strToHex(m.name) + '/' + nameOf(m.typ)).join(',') : '-';
          break;
        }
        case 'a': case 'x': {
          const v = a[1] === 'n' ? env.ifaceNil : { constructor: ref(a[1]), $val: 0 };
          const target = ref(a[2]);
          if (a[0] === 'a') { ans = env.assertType(v, target, true)[1] ? '1' : '0'; break; }
          // the non-tuple form panics with a TypeAssertionError carrying the missing method
          let missing = null;
          const pk = P('$packages');
          const saved = pk['runtime'];
          pk['runtime'] = {
            TypeAssertionError: { ptr: function (i, c, as, mm) { missing = mm; } },
            _type: { ptr: Object.assign(function (s) { this.str = s; }, { nil: null }) },
          };
          const savedPanic = P('$panic');
          P('$panic = function(v){ var e = new Error("go-panic"); e.$goPanic = v; throw e; }');
          try { env.assertType(v, target, false); ans = 'ok'; }
          catch (e) { if (!e.$goPanic) throw e; ans = 'panic.' + U.strToHex(missing === null ? '' : missing); }
          finally { pk['runtime'] = saved; }
          break;
        }
        case 'E': {
          shared = {};
          try { const x = ifaceVal(a[1]); const y = a[2] === '=' ? x : ifaceVal(a[2]); // '=': the very same boxed object
            ans = env.interfaceIsEqual(x, y) ? 'true' : 'false'; }
          catch (e) { if (U.isRuntimeError(e) && /comparing uncomparable type/.test(e.message)) ans = 'panic'; else throw e; }
          break;
        }
        default: throw new Error('bad op ' + ops[k]);
      }
      out.push(ans);
    }
    return out.join(';');
  }
  return function (a) {
    if (a[0] === 'fam') return runFamily(a[1]);
    return 'bad-op';
  };
};
