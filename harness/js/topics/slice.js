'use strict';
// C07 — the REAL prelude slice helpers ($subslice, $append, $appendSlice, $copySlice/$copyArray, $growSlice,
// $calculateNewCapacity, $makeSlice, $sliceToGoArray) on slice objects built with the real type constructors.
// Element representations: t = []int (Int32Array backing), p = []interface{} (plain Array of immediates/references),
// s = []struct{x int} (plain Array of struct objects). Cells travel as decimal integers.
const U = require('../util');
module.exports = function (repo, loadPrelude) {
  const { P } = loadPrelude(repo);
  const Int = P('$Int'), Iface = P('$emptyInterface'), ifaceNil = P('$ifaceNil');
  const S = P('$structType')('', [{ prop: 'x', name: 'x', embedded: false, exported: false, typ: Int, tag: '' }]);
  const sliceType = P('$sliceType'), arrayType = P('$arrayType'), ptrType = P('$ptrType');
  const ST = { t: sliceType(Int), p: sliceType(Iface), s: sliceType(S) };
  const ELEM = { t: Int, p: Iface, s: S };
  // arrays must be created inside the prelude's realm (the slice constructor compares `array.constructor`)
  const mkArray = P('(function(n){ return new Array(n); })');
  const mkTyped = P('(function(n){ return new Int32Array(n); })');
  const subslice = P('$subslice'), append = P('$append'), appendSlice = P('$appendSlice'), copySlice = P('$copySlice');
  const makeSlice = P('$makeSlice'), toGoArray = P('$sliceToGoArray'), newCap = P('$calculateNewCapacity');

  const enc = (k, v) => k === 's' ? new S.ptr(v) : v;
  const dec = (k, c) => k === 's' ? c.x : (c === ifaceNil ? 0 : c);
  function backing(k, cells) {
    const a = k === 't' ? mkTyped(cells.length) : mkArray(cells.length);
    for (let i = 0; i < cells.length; i++) a[i] = enc(k, cells[i]);
    return a;
  }
  function slice(k, arr, off, len, cap, nil) {
    if (nil === '1') return ST[k].nil;
    const s = new ST[k](arr);
    s.$offset = Number(off); s.$length = Number(len); s.$capacity = Number(cap);
    return s;
  }
  const cellsOf = (k, arr) => U.list(Array.from(arr, c => dec(k, c)));
  const viewOf = (k, s) => { const o = []; for (let i = 0; i < s.$length; i++) o.push(dec(k, s.$array[s.$offset + i])); return U.list(o); };
  const opt = x => x === '_' ? undefined : Number(x);
  const b = x => x ? '1' : '0';
  function guard(f) {
    try { return f(); } catch (e) {
      if (!U.isRuntimeError(e)) throw e;
      if (/slice bounds out of range/.test(e.message)) return 'panic:slice-bounds';
      if (/makeslice: len out of range/.test(e.message)) return 'panic:makeslice-len';
      if (/makeslice: cap out of range/.test(e.message)) return 'panic:makeslice-cap';
      if (/cannot convert slice with length/.test(e.message)) return 'panic:length';
      if (/non-numeric slice to underlying array conversion is not supported/.test(e.message)) return 'panic:unsupported';
      throw e;
    }
  }
  function grown(k, s, oldArr, oldObjs, r, args, nArrays, extra) {
    const realloc = r.$array !== oldArr;
    let reused = false, argalias = false;
    if (k === 's') {
      if (realloc) for (let i = 0; i < s.$length; i++) if (r.$array[i] === oldObjs[s.$offset + i]) reused = true;
      for (let i = 0; i < r.$capacity; i++) if (args.indexOf(r.$array[r.$offset + i]) >= 0) argalias = true;
    }
    if (argalias) return 'stored-argument-object';
    if (!realloc && (r.$offset !== s.$offset || r.$capacity !== s.$capacity)) return 'inplace-header-moved';
    return 'realloc=' + b(realloc) + ' len=' + r.$length + ' capok=' + b(r.$length <= r.$capacity && r.$offset + r.$capacity <= r.$array.length) +
      ' view=' + viewOf(k, r) + ' old=' + cellsOf(k, oldArr) + ' reused=' + b(reused) + ' n=' + nArrays + (extra || '');
  }
  return function (a) {
    switch (a[0]) {
      case 'subslice': return guard(() => {
        const arr = backing('t', new Array(Number(a[1]) + Number(a[3])).fill(0));
        const s = slice('t', arr, a[1], a[2], a[3], a[4]);
        const r = subslice(s, Number(a[5]), opt(a[6]), opt(a[7]));
        if (r.$array !== s.$array) return 'backing-array-not-shared';
        return r.$offset + ' ' + r.$length + ' ' + r.$capacity + ' ' + b(r === ST.t.nil);
      });
      case 'append': case 'appendcap': {
        const k = a[1], cells = U.parseList(a[2]);
        const arr = backing(k, cells), objs = Array.from(arr);
        const s = slice(k, arr, a[3], a[4], a[5], a[6]);
        const args = U.parseList(a[7]).map(v => enc(k, v));
        const r = append.apply(null, [s].concat(args));
        if (a[0] === 'appendcap') return String(r.$capacity);
        if (args.length === 0 && r !== s) return 'empty-append-new-slice';
        return grown(k, s, arr, objs, r, args, 1);
      }
      case 'appendslice': {
        const k = a[1], cells = U.parseList(a[2]);
        const arr = backing(k, cells), objs = Array.from(arr);
        const s = slice(k, arr, a[3], a[4], a[5], a[6]);
        const same = a[7] === '1';
        const sarr = same ? arr : backing(k, U.parseList(a[8]));
        const t = slice(k, sarr, a[9], a[10], a[10], '0');
        const r = appendSlice(s, t);
        return grown(k, s, arr, objs, r, same ? [] : Array.from(sarr), same ? 1 : 2, ' src=' + cellsOf(k, sarr));
      }
      case 'copy': {
        const k = a[1];
        const arr = backing(k, U.parseList(a[2])), objs = Array.from(arr);
        const same = a[5] === '1';
        const sarr = same ? arr : backing(k, U.parseList(a[6]));
        const dst = slice(k, arr, a[3], a[4], a[4], '0'), src = slice(k, sarr, a[7], a[8], a[8], '0');
        const n = copySlice(dst, src);
        if (k === 's') for (let i = 0; i < arr.length; i++) if (arr[i] !== objs[i]) return 'element-object-replaced';
        return n + ' ' + cellsOf(k, arr);
      }
      case 'growcap': return String(newCap(Number(a[1]), Number(a[2])));
      case 'make': return guard(() => {
        const s = a[2] === '_' ? makeSlice(ST.t, Number(a[1])) : makeSlice(ST.t, Number(a[1]), Number(a[2]));
        if (s.$offset !== 0 || s.$array.length !== s.$capacity) return 'bad-make';
        return s.$length + ' ' + s.$capacity + ' ' + viewOf('t', s);
      });
      case 'toarray': return guard(() => {
        const k = a[1];
        const arr = backing(k, new Array(Number(a[2]) + Number(a[4])).fill(0));
        const s = slice(k, arr, a[2], a[3], a[4], a[5]);
        const pt = ptrType(arrayType(ELEM[k], Number(a[6])));
        const r = toGoArray(s, pt);
        if (r === pt.nil) return 'nil';
        if (k === 't' && r.buffer === arr.buffer) return 'shares ' + (r.byteOffset / 4);
        if (r === arr) return 'shares 0';
        if (r && r.$val && r.$val.length === 0) return 'fresh-empty';
        return 'other';
      });
    }
    return 'bad-op';
  };
};
