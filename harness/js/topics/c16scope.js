// C16 structure tie: scope analysis of generated (minified) JavaScript with Node's bundled acorn.
// usage: node --expose-internals c16scope.js <file.js>...   -> one JSON line per file:
//   {file, packages, functions, violations:[{pkg, names, where}], error}
// For every package `$packages["p"] = (function() { var $pkg = {}, $init, A, B, …; … })()` the names declared in the
// package function are collected; every function nested in it (any depth) must not declare — as a parameter, a
// var/let/const, a nested function declaration or its own function-expression name — one of those names.
// (A declaration with the same name hides the package-level variable in that function and everything nested in it.)
'use strict';
const acorn = require('internal/deps/acorn/acorn/dist/acorn');
const fs = require('fs');

function patternNames(p, out) {
  if (!p) return;
  switch (p.type) {
    case 'Identifier': out.push(p.name); break;
    case 'ObjectPattern': for (const pr of p.properties) patternNames(pr.type === 'RestElement' ? pr.argument : pr.value, out); break;
    case 'ArrayPattern': for (const e of p.elements) patternNames(e, out); break;
    case 'AssignmentPattern': patternNames(p.left, out); break;
    case 'RestElement': patternNames(p.argument, out); break;
  }
}
const isFn = (n) => n && (n.type === 'FunctionExpression' || n.type === 'FunctionDeclaration' || n.type === 'ArrowFunctionExpression');

// names declared directly in function `fn` (not in nested functions)
function declared(fn) {
  const out = [];
  for (const p of fn.params) patternNames(p, out);
  if (fn.type === 'FunctionExpression' && fn.id) out.push(fn.id.name);
  (function walk(n) {
    if (!n || typeof n.type !== 'string') return;
    if (n.type === 'VariableDeclaration') for (const d of n.declarations) patternNames(d.id, out);
    if (n.type === 'FunctionDeclaration' && n !== fn) { if (n.id) out.push(n.id.name); return; }
    if (isFn(n) && n !== fn) return;
    if (n.type === 'CatchClause') patternNames(n.param, out);
    for (const k of Object.keys(n)) {
      const v = n[k];
      if (Array.isArray(v)) v.forEach(walk); else if (v && typeof v.type === 'string') walk(v);
    }
  })(fn.body);
  return out;
}
function nestedFunctions(fn, cb) {
  (function walk(n) {
    if (!n || typeof n.type !== 'string') return;
    if (isFn(n) && n !== fn) { cb(n); }
    for (const k of Object.keys(n)) {
      const v = n[k];
      if (Array.isArray(v)) v.forEach(walk); else if (v && typeof v.type === 'string') walk(v);
    }
  })(fn);
}
function analyse(file) {
  const src = fs.readFileSync(file, 'utf8');
  const res = {file, packages: 0, functions: 0, violations: []};
  let ast;
  try { ast = acorn.parse(src, {ecmaVersion: 'latest', sourceType: 'script', allowReturnOutsideFunction: true}); }
  catch (e) { res.error = String(e.message); return res; }
  (function find(n) {
    if (!n || typeof n.type !== 'string') return;
    if (n.type === 'AssignmentExpression' && n.left.type === 'MemberExpression' && n.left.object.type === 'Identifier' &&
        n.left.object.name === '$packages' && n.right.type === 'CallExpression' && isFn(n.right.callee)) {
      const pkgFn = n.right.callee;
      const pkg = n.left.property.type === 'Literal' ? String(n.left.property.value) : '?';
      const P = new Set(declared(pkgFn));
      res.packages++;
      nestedFunctions(pkgFn, (g) => {
        res.functions++;
        const hit = [...new Set(declared(g).filter((x) => P.has(x)))];
        if (hit.length) res.violations.push({pkg, names: hit, where: src.slice(g.start, Math.min(g.end, g.start + 160))});
      });
      return;
    }
    for (const k of Object.keys(n)) {
      const v = n[k];
      if (Array.isArray(v)) v.forEach(find); else if (v && typeof v.type === 'string') find(v);
    }
  })(ast);
  return res;
}
for (const f of process.argv.slice(2)) console.log(JSON.stringify(analyse(f)));
