// C11 implementation side: the REAL $externalize / $internalize / $externalizeFunction / $makeFunc / $send / $recv /
// $block / $schedule of <repo>/compiler/prelude, loaded in a vm context. Type objects are built with the real prelude
// constructors ($sliceType, $arrayType, $mapType, $structType, $ptrType, $funcType, basic types); every JavaScript value
// handed to the prelude is created INSIDE the prelude's realm (so `v.constructor === Array` etc. hold as in a program).
//   jsconv ext <ty> <go>   jsconv int <ty> <js>   jsconv rt <ty> <go>   jsconv wrap <ty> <js>   jsconv mkfunc <go>
//   jsconv xstr <hex>      jsconv istr <hex16>    jsconv cls <ty> <go>  jsconv back <js>        jsconv cache <ids>
//   jsconv guard <cap> <ev>|<ev>|…
// Syntax of <ty>, <go>, <js>: see lean/GV/Driver/C11.lean.
'use strict';
const U = require('../util');

function parseSx(s) {
  let i = 0;
  function node() {
    let st = i;
    while (i < s.length && s[i] !== '(' && s[i] !== ')' && s[i] !== ',') i++;
    const name = s.slice(st, i);
    const args = [];
    if (s[i] === '(') {
      i++;
      if (s[i] === ')') { i++; return { name, args }; }
      for (;;) {
        args.push(node());
        if (s[i] === ',') { i++; continue; }
        if (s[i] === ')') { i++; break; }
        throw new Error('bad sexpr at ' + i + ': ' + s);
      }
    }
    return { name, args };
  }
  const r = node();
  if (i !== s.length) throw new Error('trailing input in sexpr: ' + s);
  return r;
}

function hex4(n) { return (n + 0x10000).toString(16).slice(1); }
function units16(str) { if (str.length === 0) return '-'; let h = ''; for (let i = 0; i < str.length; i++) h += hex4(str.charCodeAt(i)); return h; }
function fromUnits(h) { if (h === '-') return ''; let s = ''; for (let i = 0; i < h.length; i += 4) s += String.fromCharCode(parseInt(h.substr(i, 4), 16)); return s; }

function showNum(x) {
  if (typeof x !== 'number') return '?num:' + typeof x;
  if (x !== x) return 'nan';
  if (x === Infinity) return 'pinf';
  if (x === -Infinity) return 'ninf';
  if (Object.is(x, -0)) return 'nz';
  if (Number.isInteger(x)) return 'n' + BigInt(x).toString();
  const neg = x < 0, a = Math.abs(x), tr = Math.floor(a), tok = (a - tr) * 1024 - 1;
  if (!Number.isInteger(tok) || tok < 0) return '?frac:' + x;
  return 'q' + tok + '_' + (neg ? (tr === 0 ? '0' : '-' + tr) : String(tr)) + '_' + (neg ? 1 : 0);
}
function parseNum(s) {
  switch (s) { case 'nz': return -0; case 'nan': return NaN; case 'pinf': return Infinity; case 'ninf': return -Infinity; }
  if (s[0] === 'n') return Number(BigInt(s.slice(1)));
  if (s[0] === 'q') { const p = s.slice(1).split('_'); const v = Math.abs(Number(p[1])) + (Number(p[0]) + 1) / 1024; return p[2] === '1' ? -v : v; }
  throw new Error('bad number ' + s);
}

module.exports = function (repo, loadPrelude) {
  const timers = new Map(); let timerSeq = 0; // pending setTimeout callbacks (never fired by the harness unless a script says `tick`)
  let curPick = 0; // Math.random() is (curPick + 0.5) / 12: $select picks ready[floor((2*curPick+1)*n/24)]
  const { P } = loadPrelude(repo, { random: () => (curPick + 0.5) / 12, now: () => 1000, setTimeout: (fn) => { timers.set(++timerSeq, fn); return timerSeq; }, clearTimeout: (id) => { timers.delete(id); } });
  // the js package's Object type, declared the way the compiler emits it (compiler/natives/src/runtime/runtime.go:70 sets $jsObjectPtr)
  const X = P(`(function(){
     var Obj = $newType(0, $kindStruct, "js.Object", true, "github.com/gopherjs/gopherjs/js", true, function(o) { this.$val = this; if (arguments.length === 0) { this.object = null; return; } this.object = o; });
     $jsObjectPtr = $ptrType(Obj);
     Obj.init("github.com/gopherjs/gopherjs/js", [{prop: "object", name: "object", embedded: false, exported: false, typ: $jsObjectPtr, tag: ""}]);
     return { Opaque: $newType(4, $kindInt, "main.Opaque", true, "main", true, null) };
  })()`);
  const R = {
    externalize: P('$externalize'), internalize: P('$internalize'), externalizeFunction: P('$externalizeFunction'), makeFunc: P('$makeFunc'),
    sliceType: P('$sliceType'), arrayType: P('$arrayType'), mapType: P('$mapType'), structType: P('$structType'), ptrType: P('$ptrType'),
    funcType: P('$funcType'), emptyInterface: P('$emptyInterface'), jsObjectPtr: P('$jsObjectPtr'), ifaceNil: P('$ifaceNil'),
    nilFunc: P('$throwNilPointerError'), Opaque: X.Opaque, String: P('$String'),
    Array: P('Array'), Map: P('Map'), newObject: P('(function(){ return {}; })'),
    mkJsFunc: P('(function(cb){ return function(){ return cb(); }; })'),
    subslice: P('$subslice'), sliceToNativeArray: P('$sliceToNativeArray'),
    send: P('$send'), recv: P('$recv'), select: P('$select'), Chan: P('$Chan'), Int: P('$Int'),
  };
  const BASIC = { Tb: '$Bool', Ti: '$Int', Ti8: '$Int8', Ti16: '$Int16', Ti32: '$Int32', Tu: '$Uint', Tu8: '$Uint8', Tu16: '$Uint16', Tu32: '$Uint32',
    Tup: '$Uintptr', TI64: '$Int64', TU64: '$Uint64', Tf32: '$Float32', Tf64: '$Float64', Ts: '$String' };
  const basicObj = {}; const basicName = new Map();
  for (const k of Object.keys(BASIC)) { basicObj[k] = P(BASIC[k]); basicName.set(basicObj[k], k); }
  const TA = { i8: P('Int8Array'), i16: P('Int16Array'), i32: P('Int32Array'), u8: P('Uint8Array'), u16: P('Uint16Array'), u32: P('Uint32Array'), f32: P('Float32Array'), f64: P('Float64Array') };
  const KIND = { Array: 17, Func: 19, Interface: 20, Map: 21, Ptr: 22, Slice: 23, Struct: 25 };

  // ---- per-op registries ----
  let goFuncs, jsFuncs, called;
  function reset() { goFuncs = new Map(); jsFuncs = new Map(); called = []; }
  const FT0 = () => R.funcType([], [], false);
  function goFunc(id) {
    if (!goFuncs.has(id)) goFuncs.set(id, function () { called.push('gf' + id); });
    return goFuncs.get(id);
  }
  function jsFunc(id) {
    if (!jsFuncs.has(id)) jsFuncs.set(id, R.mkJsFunc(() => { called.push('jf' + id); return null; }));
    return jsFuncs.get(id);
  }

  // ---- types ----
  function buildTy(x) {
    if (basicObj[x.name] && x.args.length === 0) return basicObj[x.name];
    switch (x.name) {
      case 'TE': return R.emptyInterface;
      case 'TO': return R.jsObjectPtr;
      case 'TS': return R.sliceType(buildTy(x.args[0]));
      case 'TM': return R.mapType(R.String, buildTy(x.args[0]));
      case 'TP': return R.ptrType(buildTy(x.args[0]));
      case 'TA': return R.arrayType(buildTy(x.args[1]), Number(x.args[0].name));
      case 'TT': {
        const fields = [];
        for (let i = 0; i < x.args.length; i += 2) {
          const nm = U.hexToStr(x.args[i].name.slice(1));
          fields.push({ prop: nm, name: nm, embedded: false, exported: x.args[i].name[0] === 'x', typ: buildTy(x.args[i + 1]), tag: '' });
        }
        return R.structType('main', fields);
      }
      case 'TF': return R.funcType(x.args[1].args.map(buildTy), x.args[2].args.map(buildTy), x.args[0].name === 'v1');
    }
    throw new Error('bad type ' + x.name);
  }
  function tyStr(T) {
    if (basicName.has(T)) return basicName.get(T);
    if (T === R.jsObjectPtr) return 'TO';
    if (T === R.Opaque) return 'Topaque';
    switch (T.kind) {
      case KIND.Interface: return T.methods.length === 0 ? 'TE' : '?iface';
      case KIND.Slice: return 'TS(' + tyStr(T.elem) + ')';
      case KIND.Array: return 'TA(' + T.len + ',' + tyStr(T.elem) + ')';
      case KIND.Map: return T.key === R.String ? 'TM(' + tyStr(T.elem) + ')' : '?map[' + T.key.string + ']';
      case KIND.Ptr: return 'TP(' + tyStr(T.elem) + ')';
      case KIND.Struct: return 'TT(' + T.fields.map(f => (f.exported ? 'x' : 'y') + U.strToHex(f.name) + ',' + tyStr(f.typ)).join(',') + ')';
      case KIND.Func: return 'TF(' + (T.variadic ? 'v1' : 'v0') + ',TL(' + T.params.map(tyStr).join(',') + '),TL(' + T.results.map(tyStr).join(',') + '))';
    }
    return '?type:' + T.string;
  }

  // ---- JavaScript values (in the prelude's realm) ----
  function buildJs(x) {
    const n = x.name;
    switch (n) {
      case 'u': return undefined; case 'null': return null; case 't': return true; case 'f': return false;
      case 'ja': return R.Array.from(x.args.map(buildJs));
      case 'jo': { const o = R.newObject(); for (let i = 0; i < x.args.length; i += 2) o[fromUnits(x.args[i].name.slice(1))] = buildJs(x.args[i + 1]); return o; }
    }
    if (n.startsWith('ta_')) return new TA[n.slice(3)](x.args.map(a => parseNum(a.name)));
    if (n[0] === 'w' && n[1] !== 'r') return fromUnits(n.slice(1));
    if (n.startsWith('wr')) { const o = R.newObject(); o.__internal_object__ = new R.Opaque(Number(n.slice(2))); return o; }
    if (n.startsWith('jf')) return jsFunc(Number(n.slice(2)));
    if (n.startsWith('gf')) return R.externalizeFunction(goFunc(Number(n.slice(2))), FT0(), false);
    return parseNum(n);
  }
  function showJs(v) {
    if (v === undefined) return 'u';
    if (v === null) return 'null';
    switch (typeof v) {
      case 'boolean': return v ? 't' : 'f';
      case 'number': return showNum(v);
      case 'string': return 'w' + units16(v);
      case 'function':
        for (const [id, f] of jsFuncs) if (f === v) return 'jf' + id;
        for (const [id, f] of goFuncs) if (f.$externalizeWrapper === v) return 'gf' + id;
        return '?function';
      case 'object': break;
      default: return '?' + typeof v;
    }
    for (const c of Object.keys(TA)) if (v.constructor === TA[c]) return 'ta_' + c + '(' + Array.from(v).map(showNum).join(',') + ')';
    if (v.constructor === R.Array) return 'ja(' + Array.prototype.map.call(v, showJs).join(',') + ')';
    if (Array.isArray(v)) return '?foreign-array';
    if (v.constructor === R.jsObjectPtr) // a leaked js.Object wrapper struct: an object whose property `object` holds the value
      return 'jo(w006f0062006a006500630074,' + showJs(v.object) + ')';
    if (v.__internal_object__ !== undefined) { const io = v.__internal_object__; return io && io.constructor === R.Opaque ? 'wr' + io.$val : '?wrapper'; }
    if (Object.getPrototypeOf(v) !== Object.getPrototypeOf(R.newObject())) return '?object:' + (v.constructor && v.constructor.name);
    const ks = Object.keys(v).sort((a, b) => { // by UTF-16 code units, shorter first on equal prefix
      const n = Math.min(a.length, b.length);
      for (let i = 0; i < n; i++) { const d = a.charCodeAt(i) - b.charCodeAt(i); if (d) return d; }
      return a.length - b.length;
    });
    const out = [];
    for (const k of ks) { out.push('w' + units16(k)); out.push(showJs(v[k])); }
    return 'jo(' + out.join(',') + ')';
  }

  // ---- Go values ----
  function realmArrayFor(T, list) { // backing store of a slice/array with element type T
    const NA = R.sliceType(T).nativeArray;
    return NA === R.Array ? R.Array.from(list) : new NA(list);
  }
  function buildGo(x, T) {
    const n = x.name;
    if (T === R.jsObjectPtr) { if (n !== 'ob') throw new Error('expected ob(…)'); return buildJs(x.args[0]); }
    if (n === 'nil') {
      switch (T.kind) {
        case KIND.Slice: return T.nil; case KIND.Map: return false; case KIND.Ptr: return T.nil;
        case KIND.Func: return R.nilFunc; case KIND.Interface: return R.ifaceNil;
      }
      throw new Error('nil of ' + T.string);
    }
    switch (n) {
      case 't': return true; case 'f': return false;
      case 'sl': {
        const el = x.args.map(a => buildGo(a, T.elem));
        if (el.length % 4 === 2) { // a prefix s[:n:n] of a longer backing array: offset 0, len = cap < backing length
          const zero = T.elem.zero(); const s = new T(realmArrayFor(T.elem, el.concat([zero, zero])));
          s.$offset = 0; s.$length = el.length; s.$capacity = el.length; return s;
        }
        if (el.length % 2 === 1) { // a window into a larger backing array (exercises $offset / $sliceToNativeArray)
          const zero = T.elem.zero(); const s = new T(realmArrayFor(T.elem, [zero, zero].concat(el, [zero])));
          s.$offset = 2; s.$length = el.length; s.$capacity = el.length + 1; return s;
        }
        return new T(realmArrayFor(T.elem, el));
      }
      case 'ar': return realmArrayFor(T.elem, x.args.map(a => buildGo(a, T.elem)));
      case 'mp': {
        const m = new R.Map();
        for (let i = 0; i < x.args.length; i += 2) { const k = U.hexToStr(x.args[i].name.slice(1)); m.set(T.key.keyFor(k), { k: k, v: buildGo(x.args[i + 1], T.elem) }); }
        return m;
      }
      case 'st': { // fields are assigned one by one: the generic constructor of $structType replaces `undefined` by the zero value
        const st = new T.ptr();
        x.args.forEach((a, i) => { st[T.fields[i].prop] = buildGo(a, T.fields[i].typ); });
        return st;
      }
      case 'pt': {
        if (T.elem.kind === KIND.Struct) return buildGo(x.args[0], T.elem);
        let cell = buildGo(x.args[0], T.elem);
        return new T(() => cell, (v) => { cell = v; });
      }
      case 'if': {
        const D = buildTy(x.args[0]);
        if (D === R.jsObjectPtr) return new D(buildJs(x.args[1].args[0]));
        const v = buildGo(x.args[1], D);
        return D.wrapped ? new D(v) : v;
      }
    }
    if (n[0] === 'L') { const p = n.slice(1).split('_'); return new T(Number(p[0]), Number(p[1])); }
    if (n.startsWith('fn')) return goFunc(Number(n.slice(2)));
    if (n.startsWith('op')) return new R.Opaque(Number(n.slice(2)));
    if (n[0] === 's') return U.hexToStr(n.slice(1));
    return parseNum(n);
  }
  function showGoFunc(v, T) {
    if (v === R.nilFunc) return 'nil';
    for (const [id, f] of goFuncs) if (f === v) return 'fn' + id;
    // a closure built by $internalize: call it with zero-valued arguments and see which function it reaches
    called = [];
    try { v.apply(undefined, T.params.map(p => p.zero())); } catch (e) {
      const m = String(e && e.message);   // the closure captured a non-function: `v.apply` fails on undefined / null
      if (/of undefined \(reading 'apply'\)/.test(m)) return 'jfn(u)';
      if (/of null \(reading 'apply'\)/.test(m)) return 'jfn(null)';
      return 'jfn(?)';
    }
    return 'jfn(' + (called.length === 1 ? called[0] : '?') + ')';
  }
  function showGo(v, T) {
    if (T === R.jsObjectPtr) return 'ob(' + showJs(v === R.jsObjectPtr.nil ? null : v) + ')';   // the nil *js.Object is null (js.go:29)
    if (basicName.has(T)) {
      const k = basicName.get(T);
      if (k === 'Tb') return typeof v === 'boolean' ? (v ? 't' : 'f') : '?bool:' + typeof v;
      if (k === 'TI64' || k === 'TU64') return (v && v.constructor === T) ? 'L' + v.$high + '_' + v.$low : '?64';
      if (k === 'Ts') return typeof v === 'string' ? 's' + U.strToHex(v) : '?string:' + typeof v;
      return showNum(v);
    }
    switch (T.kind) {
      case KIND.Slice: {
        if (v === T.nil) return 'nil';
        if (!v || v.constructor !== T) return '?slice';
        if (v.$array.constructor !== T.nativeArray) return '?slice-backing:' + (v.$array.constructor && v.$array.constructor.name);
        const out = []; for (let i = 0; i < v.$length; i++) out.push(showGo(v.$array[v.$offset + i], T.elem));
        return 'sl(' + out.join(',') + ')';
      }
      case KIND.Array: {
        if (!v || v.constructor !== R.sliceType(T.elem).nativeArray) return '?array-backing:' + (v && v.constructor && v.constructor.name);
        const out = []; for (let i = 0; i < v.length; i++) out.push(showGo(v[i], T.elem)); return 'ar(' + out.join(',') + ')'; }
      case KIND.Map: {
        if (v === false || v === undefined || v === null || v.keys === undefined) return 'nil';
        const ents = Array.from(v.values()).sort((a, b) => { const x = U.strToHex(a.k), y = U.strToHex(b.k); return cmpHex(x, y); });
        const out = []; for (const e of ents) { out.push('s' + U.strToHex(e.k)); out.push(showGo(e.v, T.elem)); }
        return 'mp(' + out.join(',') + ')';
      }
      case KIND.Struct: return 'st(' + T.fields.map(f => showGo(v[f.prop], f.typ)).join(',') + ')';
      case KIND.Ptr: if (v === T.nil) return 'nil'; return 'pt(' + showGo(T.elem.kind === KIND.Struct ? v : v.$get(), T.elem) + ')';
      case KIND.Func: return showGoFunc(v, T);
      case KIND.Interface: {
        if (v === R.ifaceNil) return 'nil';
        const D = v.constructor;
        if (D === R.Opaque) return 'op' + v.$val;
        if (D === R.jsObjectPtr) return 'if(TO,ob(' + showJs(v.object) + '))';
        return 'if(' + tyStr(D) + ',' + showGo(D.wrapped ? v.$val : v, D) + ')';
      }
    }
    return '?go:' + T.string;
  }
  function cmpHex(x, y) { // lexicographic on bytes; '-' (empty) first
    if (x === '-') x = ''; if (y === '-') y = '';
    return x < y ? -1 : x > y ? 1 : 0;
  }

  function errName(e) {
    const m = String(e && e.message);
    if (U.isRuntimeError(e)) {
      if (/^cannot externalize/.test(m)) return 'err:cannot-externalize';
      if (/^cannot internalize/.test(m)) return 'err:cannot-internalize';
      if (/wrong size/.test(m)) return 'err:wrong-size';
      if (/cannot block in JavaScript callback/.test(m)) return 'err:cannot-block';
      if (/send on closed channel/.test(m)) return 'err:send-closed';
      return 'err:runtime:' + m.replace(/\s+/g, '_').slice(0, 60);
    }
    if (e && e.name === 'TypeError') return /is not a function/.test(m) ? 'typeerror:not-a-function' : 'err:type-error';
    return null;
  }
  function guarded(f) {
    try { return f(); } catch (e) { const n = errName(e); if (n === null) throw e; return n; }
  }
  function jsClass(v) {
    if (v === undefined) return 'undefined';
    if (v === null) return 'null';
    switch (typeof v) { case 'boolean': return 'Boolean'; case 'number': return 'Number'; case 'string': return 'String'; case 'function': return 'Function'; }
    for (const c of Object.keys(TA)) if (v instanceof TA[c]) return 'TypedArray:' + c;
    if (v instanceof R.Array) return 'Array';
    return 'Object';
  }

  // ---- callback guard script on the real $send/$recv/$block/$schedule/$runScheduled ----
  const setCur = P('(function(g){ $curGoroutine = g; })');
  const noGoroutine = P('$noGoroutine');
  const resetSched = P('(function(){ $scheduled = []; $curGoroutine = $noGoroutine; $awakeGoroutines = 0; $totalGoroutines = 0; })');
  const getSched = P('(function(){ return $scheduled; })');
  function guard(cap, evs) {
    resetSched();
    const chan = new R.Chan(R.Int, cap);
    const gors = new Map();
    const gor = (id) => {
      if (!gors.has(id)) { const g = function () { }; g.asleep = false; g.exit = false; g.deferStack = []; g.panicStack = []; g.gid = id; gors.set(id, g); }
      return gors.get(id);
    };
    const who = (g) => g === noGoroutine ? 'cb' : (g && g.gid !== undefined ? String(g.gid) : '?');
    const out = [];
    for (const ev of evs) {
      const p = ev.split('_');
      let obs;
      if (p[0] === 'dequeue') {
        const q = getSched();
        const r = q.shift();           // goroutines.js:182-184  `r = $scheduled.shift(); r();`
        if (r === undefined) obs = 'idle';
        else obs = guarded(() => { r(); return 'resumed:' + who(r); });
      } else {
        setCur(p[1] === 'cb' ? noGoroutine : gor(Number(p[1])));
        try {
          obs = guarded(() => {
            if (p[0] === 'send') { const r = R.send(chan, Number(p[2])); return r && r.$blk !== undefined ? 'blocked' : 'done'; }
            if (p[0] === 'sel') { // sel_<g>_<pick>_<case>.<case>…  with cases s<v> | r | d
              curPick = Number(p[2]);
              const comms = p[3].split('.').map(c => c === 'r' ? [chan] : c === 'd' ? [] : [chan, Number(c.slice(1))]);
              const r = R.select(comms);
              if (r && r.$blk !== undefined) return 'blocked';
              if (r.length === 1) return 'sel:' + r[0];
              if (r[1] && r[1].$blk !== undefined) return 'blocked';
              return 'sel:' + r[0] + (r[1][1] ? ':value:' + r[1][0] : ':zero');
            }
            const r = R.recv(chan);
            if (r && r.$blk !== undefined) return 'blocked';
            return r[1] ? 'value:' + r[0] : 'zero';
          });
        } finally { setCur(noGoroutine); }
      }
      const q = getSched();
      out.push(obs + ' buf=' + (chan.$buffer.length ? chan.$buffer.join(',') : '-') + ' sq=' + chan.$sendQueue.length + ' rq=' + chan.$recvQueue.length +
        ' sched=' + (q.length ? q.map(who).join(',') : '-'));
    }
    return out.join('|');
  }


  // ---- histories of JavaScript-side events over the REAL $go / $goroutine / $runScheduled / $schedule ----
  // Nothing here touches $curGoroutine: goroutines are created with $go and run by the real scheduler; their bodies are
  // scripts written the way the compiler emits a blocking function (return an object with $blk to suspend).
  //   go_<op>.<op>…   (ops: s<v> send, r recv, l<pick>:<case>+<case> select, p unrecovered panic, x return; "-" = empty)
  //   cbsend_<v>  cbrecv  cbsel_<pick>_<case>.<case>   tick (the event loop fires the oldest pending timer)
  const getCur = P('(function(){ return $curGoroutine; })');
  const getCounters = P('(function(){ return [$awakeGoroutines, $totalGoroutines]; })');
  const resetHist = P('(function(){ $scheduled = []; $curGoroutine = $noGoroutine; $awakeGoroutines = 0; $totalGoroutines = 0; $mainFinished = true; })');
  const goFn = P('$go');
  function parseComms(chan, cases, sep) {
    return cases.split(sep).map(c => c === 'r' ? [chan] : c === 'd' ? [] : [chan, Number(c.slice(1))]);
  }
  function chanOp(chan, op) { // returns the raw result of the prelude call
    if (op[0] === 's') return R.send(chan, Number(op.slice(1)));
    if (op === 'r') return R.recv(chan);
    const m = /^l(\d+):(.*)$/.exec(op);
    curPick = Number(m[1]);
    return R.select(parseComms(chan, m[2], '+'));
  }
  function hist(cap, evs) {
    resetHist(); timers.clear();
    const chan = new R.Chan(R.Int, cap);
    let created = 0; const untagged = [];
    function mkBody(id, prog) {
      let pc = 0, pending = null, tagged = false;
      const body = function () {
        if (!tagged) { // the goroutine object is only reachable as $curGoroutine while it runs
          const c = getCur(); if (c !== noGoroutine && c.gid === undefined) c.gid = id;
          tagged = true; const k = untagged.indexOf(id); if (k >= 0) untagged.splice(k, 1);
        }
        for (;;) {
          if (pending !== null) { const p = pending; pending = null; p.$blk(); pc++; continue; }
          if (pc >= prog.length) return;
          const op = prog[pc];
          if (op === 'p') throw new Error('boom');   // a panic nobody recovers
          if (op === 'x') return;
          const r = chanOp(chan, op);
          if (r && r.$blk !== undefined) { pending = r; return { $blk: body }; }
          pc++;
        }
      };
      return body;
    }
    const who = (g) => g === noGoroutine ? 'cb' : (g && g.gid !== undefined ? 'g' + g.gid : '?');
    function outcome(f) {
      try { return f(); } catch (e) {
        const n = errName(e);
        if (n !== null) return n;
        if (e && e.message === 'boom') return 'threw';
        throw e;
      }
    }
    const out = [];
    for (const ev of evs) {
      const p = ev.split('_');
      let obs;
      if (p[0] === 'go') {
        const id = created++; untagged.push(id);
        const prog = p[1] === '-' ? [] : p[1].split('.');
        obs = outcome(() => { goFn(mkBody(id, prog), []); return 'ok'; });
      } else if (p[0] === 'tick') {
        const first = timers.keys().next();
        if (first.done) obs = 'idle';
        else { const fn = timers.get(first.value); timers.delete(first.value); obs = outcome(() => { fn(); return 'ok'; }); }
      } else {
        obs = outcome(() => {
          if (p[0] === 'cbsend') { const r = R.send(chan, Number(p[1])); return r && r.$blk !== undefined ? 'blocked' : 'done'; }
          if (p[0] === 'cbrecv') { const r = R.recv(chan); if (r && r.$blk !== undefined) return 'blocked'; return r[1] ? 'value:' + r[0] : 'zero'; }
          curPick = Number(p[1]);
          const r = R.select(parseComms(chan, p[2], '.'));
          if (r && r.$blk !== undefined) return 'blocked';
          if (r.length === 1) return 'sel:' + r[0];
          if (r[1] && r[1].$blk !== undefined) return 'blocked';
          return 'sel:' + r[0] + (r[1][1] ? ':value:' + r[1][0] : ':zero');
        });
      }
      const q = getSched();
      for (const g of q) if (g !== noGoroutine && g.gid === undefined && untagged.length) g.gid = untagged.shift();
      const cnt = getCounters();
      out.push(obs + ' cur=' + who(getCur()) + ' buf=' + (chan.$buffer.length ? chan.$buffer.join(',') : '-') + ' sq=' + chan.$sendQueue.length +
        ' rq=' + chan.$recvQueue.length + ' sched=' + (q.length ? q.map(who).join(',') : '-') + ' timers=' + timers.size + ' awake=' + cnt[0] + ' total=' + cnt[1]);
    }
    return out.join('|');
  }

  return function (a) {
    reset();
    switch (a[0]) {
      case 'ext': { const T = buildTy(parseSx(a[1])); const g = buildGo(parseSx(a[2]), T); return guarded(() => showJs(R.externalize(g, T))); }
      case 'int': { const T = buildTy(parseSx(a[1])); const j = buildJs(parseSx(a[2])); return guarded(() => showGo(R.internalize(j, T), T)); }
      case 'rt': { const T = buildTy(parseSx(a[1])); const g = buildGo(parseSx(a[2]), T); return guarded(() => showGo(R.internalize(R.externalize(g, T), T), T)); }
      case 'wrap': {
        const T = buildTy(parseSx(a[1])); const j = buildJs(parseSx(a[2]));
        const w = R.externalizeFunction(function (x) { return x; }, R.funcType([T], [T], false), false);
        return guarded(() => showJs(w(j)));
      }
      case 'mkfunc': { const g = buildGo(parseSx(a[1]), R.emptyInterface); const f = R.makeFunc(function (this_, args) { return g; }); return guarded(() => showJs(f())); }
      case 'xstr': return units16(R.externalize(U.hexToStr(a[1]), R.String));
      case 'istr': return U.strToHex(R.internalize(fromUnits(a[1]), R.String));
      case 'rtstr': return U.strToHex(R.internalize(R.externalize(U.hexToStr(a[1]), R.String), R.String));
      case 'rtstr16': return units16(R.externalize(R.internalize(fromUnits(a[1]), R.String), R.String));
      case 'cls': { const T = buildTy(parseSx(a[1])); const g = buildGo(parseSx(a[2]), T); return guarded(() => jsClass(R.externalize(g, T))); }
      case 'back': {
        const j = buildJs(parseSx(a[1]));
        return guarded(() => { const r = R.internalize(j, R.emptyInterface); if (r === R.ifaceNil) return 'nil'; if (r.constructor === R.Opaque) return 'op' + r.$val; return tyStr(r.constructor); });
      }
      case 'cache': { // a history of externalisations of Go functions, through the three entry points, with calls in between
        const ids = U.parseList(a[1]); const seen = []; const out = [];
        ids.forEach((id, step) => {
          const f = goFunc(id); let w;
          if (step % 3 === 0) w = R.externalizeFunction(f, FT0(), false);
          else if (step % 3 === 1) w = R.externalize(f, FT0());
          else w = R.externalize(new (FT0())(f), R.emptyInterface);
          if (step % 2 === 0) w();
          let k = seen.indexOf(w); if (k < 0) { k = seen.length; seen.push(w); }
          out.push(k);
        });
        return U.list(out);
      }
      case 'guard': return guard(Number(a[1]), a[2].split('|'));
      case 'hist': return hist(Number(a[1]), a[2].split('|'));
      case 'slice': { // new T(backing array), then the chain of $subslice(s, lo, hi, max) calls, as compiled code does for s[lo:hi:max]
        const E = buildTy(parseSx(a[1])); const T = R.sliceType(E);
        const bx = parseSx(a[2]);
        let sl = new T(realmArrayFor(E, bx.args.map(x => buildGo(x, E))));
        try {
          for (const tr of a[3].split('/')) { const p = tr.split(':').map(Number); sl = R.subslice(sl, p[0], p[1], p[2]); }
        } catch (e) { if (U.isRuntimeError(e) && /slice bounds out of range/.test(e.message)) return 'panic:slice-bounds'; throw e; }
        const ext = guarded(() => showJs(R.externalize(sl, T)));
        const nat = R.sliceToNativeArray(sl).length;
        const rt = guarded(() => showGo(R.internalize(R.externalize(sl, T), T), T));
        return 'ext=' + ext + ' nat=' + nat + ' rt=' + rt;
      }
    }
    return 'bad-op';
  };
};
