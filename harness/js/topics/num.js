'use strict';
// C06, implementation side of the helper tie: the REAL 64-bit constructor ($newType of types.js), $mul64, $div64,
// the three shift helpers, $flatten64 and $imul of numeric.js, called on {$high,$low} objects built by the real
// constructor. Arguments/answers are decimal strings; 64-bit values travel as canonical halves "high:low".
module.exports = function (repo, loadPrelude) {
  const { P } = loadPrelude(repo);
  const T = { s: P('$Int64'), u: P('$Uint64') };
  const mul64 = P('$mul64'), div64 = P('$div64'), shl64 = P('$shiftLeft64');
  const shrS = P('$shiftRightInt64'), shrU = P('$shiftRightUint64'), flatten64 = P('$flatten64'), imul = P('$imul');
  function num(v) { return Object.is(v, -0) ? '-0' : String(v); }
  function r64(x) { return num(x.$high) + ':' + num(x.$low); }
  // build an object with exactly these halves, through the real constructor (the halves are canonical, so the
  // constructor must leave them alone; checked).
  function mk(s, h, l) {
    const x = new T[s](Number(h), Number(l));
    if (x.$high !== Number(h) || x.$low !== Number(l)) throw new Error('constructor changed canonical halves ' + h + ':' + l + ' -> ' + r64(x));
    return x;
  }
  function big(v) { // exact Number of a decimal string (all inputs of mk64 are < 2^53 in magnitude)
    const n = Number(v);
    if (BigInt(n) !== BigInt(v)) throw new Error('inexact input ' + v);
    return n;
  }
  return function (a) {
    if (a[0] === 'spec') throw new Error('spec lines are for the Lean driver only');
    switch (a[0]) {
      case 'mk64': return r64(new T[a[1]](big(a[2]), big(a[3])));
      case 'mul64': return r64(mul64(mk(a[1], a[2], a[3]), mk(a[1], a[4], a[5])));
      case 'div64':
        try { return r64(div64(mk(a[1], a[3], a[4]), mk(a[1], a[5], a[6]), a[2] === 'r')); }
        catch (e) { if (e && e.$goRuntimeError && /integer divide by zero/.test(e.message)) return 'panic'; throw e; }
      case 'shl64': return r64(shl64(mk(a[1], a[2], a[3]), big(a[4])));
      case 'shr64': return r64((a[1] === 's' ? shrS : shrU)(mk(a[1], a[2], a[3]), big(a[4])));
      case 'flatten64': {
        const v = flatten64({ $high: Number(a[1]), $low: Number(a[2]) });
        return Number.isSafeInteger(v) || Math.abs(v) === 9007199254740992 ? num(v) : BigInt(v).toString();
      }
      case 'imul': return num(imul(big(a[1]), big(a[2])));
    }
    return 'bad-op';
  };
};
