'use strict';
// C07 — the REAL `$clone` / `T.copy` / `T.zero` on values of generated array/struct types built with the real
// type constructors ($structType, $arrayType, $ptrType, $sliceType, $mapType).
//   heap clone <type>     type syntax (prefix, '.'-separated): i | p τ | l τ | m | f | sN τ1…τN | aN τ
const U = require('../util');
module.exports = function (repo, loadPrelude) {
  const { P } = loadPrelude(repo);
  const Int = P('$Int'), Iface = P('$emptyInterface'), clone = P('$clone');
  const structType = P('$structType'), arrayType = P('$arrayType'), ptrType = P('$ptrType'), sliceType = P('$sliceType'), mapType = P('$mapType');
  const kindArray = P('$kindArray'), kindStruct = P('$kindStruct');
  function parseTy(toks) {
    const t = toks.shift();
    if (t === 'i') return Int;
    if (t === 'm') return mapType(Int, Int);
    if (t === 'f') return Iface;
    if (t === 'p') return ptrType(parseTy(toks));
    if (t === 'l') return sliceType(parseTy(toks));
    if (t[0] === 'a') { const n = Number(t.slice(1)); return arrayType(parseTy(toks), n); }
    if (t[0] === 's') {
      const n = Number(t.slice(1)); const fields = [];
      for (let i = 0; i < n; i++) fields.push({ prop: 'f' + i, name: 'f' + i, embedded: false, exported: false, typ: parseTy(toks), tag: '' });
      return structType('', fields);
    }
    throw new Error('bad type token ' + t);
  }
  const isSpine = T => T.kind === kindArray || T.kind === kindStruct;
  // visit every leaf cell in Go memory order: f(container, key, leafType); collect spine objects
  function walk(T, v, f, spine) {
    spine.push(v);
    if (T.kind === kindStruct) {
      for (const fd of T.fields) { if (isSpine(fd.typ)) walk(fd.typ, v[fd.prop], f, spine); else f(v, fd.prop, fd.typ); }
    } else {
      for (let i = 0; i < T.len; i++) { if (isSpine(T.elem)) walk(T.elem, v[i], f, spine); else f(v, i, T.elem); }
    }
  }
  const marks = new Map();
  const mark = k => { if (!marks.has(k)) marks.set(k, { $mark: k }); return marks.get(k); };
  const show = (c, T) => T === Int ? c : (c && c.$mark !== undefined ? c.$mark : 'ref?');
  return function (a) {
    switch (a[0]) {
      case 'clone': {
        const T = parseTy(a[1].split('.'));
        if (!isSpine(T)) return 'not-spine';
        const v = T.zero();
        let k = 0; const sv = [];
        walk(T, v, (o, key, LT) => { k++; o[key] = LT === Int ? k : mark(k); }, sv);
        const n = k;
        const c = clone(v, T);
        const cells = [], sc = [];
        walk(T, c, (o, key, LT) => cells.push(show(o[key], LT)), sc);
        let fresh = sc.length === sv.length && new Set(sc).size === sc.length;
        for (const o of sc) if (sv.indexOf(o) >= 0) fresh = false;
        k = 0;
        walk(T, c, (o, key, LT) => { o[key] = LT === Int ? 1000 + k : mark(1000 + k); k++; }, []);
        const src = [], dst = [];
        walk(T, v, (o, key, LT) => src.push(show(o[key], LT)), []);
        walk(T, c, (o, key, LT) => dst.push(show(o[key], LT)), []);
        return 'n=' + n + ' clone=' + U.list(cells) + ' fresh=' + (fresh ? 1 : 0) + ' src=' + U.list(src) + ' dst=' + U.list(dst);
      }
    }
    return 'bad-op';
  };
};
