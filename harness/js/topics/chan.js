// C03 implementation side: the REAL goroutines.js / types.js of <repo>, loaded in a vm context with
// Math.random, Date.now, setTimeout, clearTimeout, console.error and process.exit under harness control.
//
//   chan script <ev>|<ev>|...      (event fields joined by '_', e.g. send_1_5, sel_3_s1:5,r2,d)
//   answer: <obs> <state dump>|<obs> <state dump>|...   one per event
//
// Scripted goroutines are written the way the compiler emits a blocking function (see the `worker$1`
// shape produced by compiler/statements.go + functions.go: `$restore`, `$s` switch, `$r = $send(..); $s = N;
// case N: if($c) { $c = false; $r = $r.$blk(); } if ($r && $r.$blk !== undefined) { break s; }` and the
// `$f = {$blk: fn, $c: true, ...}` frame object). The goroutine's "program" is pulled from the event list:
// the next event says which operation the running goroutine performs, whether the $runScheduled loop goes on
// (`next`) or its time slice is over (`tick`), and which timer the event loop fires (`fire_id`).
'use strict';

const STOP = { stop: true };

function panicName(e) {
  const m = String(e && e.message);
  if (/send on closed channel/.test(m)) return 'panic:send-closed';
  if (/close of closed channel/.test(m)) return 'panic:close-closed';
  if (/close of nil channel/.test(m)) return 'panic:close-nil';
  if (/Cannot read properties of null \(reading 'zero'\)/.test(m)) return 'panic:nil-elem';
  // anything else the runtime throws is an observation too (a changed runtime must show up as a
  // disagreement with the model, never as a harness failure)
  return 'jserror:' + m.replace(/[\s|]+/g, '_').slice(0, 80);
}

module.exports = function (repo, loadPrelude) {
  let H = null; // per-script harness state
  const con = { log() { }, error(msg) { if (/all goroutines are asleep/.test(String(msg))) H.dead++; else H.stray.push(String(msg)); } };
  const { P } = loadPrelude(repo, {
    random: () => (H.pick + 0.5) / 12,
    now: () => H.now(),
    setTimeout: (fn, t) => H.setTimeout(fn, t),
    clearTimeout: (id) => H.clearTimeout(id),
    console: con,
  });
  P('$global.process = { exit: function (c) { } }');
  const $restore = P('$restore'), $Int = P('$Int'), $Chan = P('$Chan'), $chanNil = P('$chanNil');
  const R = {
    send: (c, v) => P('$send')(c, v), recv: (c) => P('$recv')(c), close: (c) => P('$close')(c),
    select: (comms) => P('$select')(comms), go: (f, a) => P('$go')(f, a), setTimeout: (f, t) => P('$setTimeout')(f, t),
  };
  const getState = P('(function(){ return {cur: $curGoroutine, none: $noGoroutine, sched: $scheduled, awake: $awakeGoroutines, total: $totalGoroutines, main: $mainFinished, runScheduled: $runScheduled}; })');
  const reset = P('(function(){ $scheduled = []; $curGoroutine = $noGoroutine; $totalGoroutines = 0; $awakeGoroutines = 0; $mainFinished = false; $checkForDeadlock = true; $exportedFunctions = 0; $chanNil.$closed = false; $chanNil.$buffer = []; })');
  const setMain = P('(function(){ $mainFinished = true; })');

  function bit(b) { return b ? '1' : '0'; }
  function join(sep, a) { return a.length ? a.join(sep) : '-'; }

  function dump(ctx) {
    const s = getState();
    // goroutines created but not yet run are recognised in $scheduled in creation order
    for (const g of s.sched) if (g.gid === undefined && H.untagged.length) { g.gid = H.untagged.shift(); H.gobj[g.gid] = g; }
    const cur = s.cur === s.none ? '-' : String(s.cur.gid);
    const chs = H.chans.map(c => c.$capacity + '/' + join('.', c.$buffer) + '/' + c.$sendQueue.length + '/' + c.$recvQueue.length + '/' + bit(c.$closed));
    const gs = H.gobj.map(g => g === undefined ? '?' : (g.asleep ? 'a' : 'r') + (g.exit ? 'x' : ''));
    return 'cur=' + cur + ' loop=' + (ctx === 'top' ? '0' : '1') + ' sched=' + join(',', s.sched.map(g => g.gid === undefined ? '?' : g.gid)) +
      ' awake=' + s.awake + ' total=' + s.total + ' main=' + bit(s.main) + ' dead=' + H.dead +
      ' timers=' + join(',', H.timers.map(t => t.id + ':' + t.kind)) + ' ch=' + join(';', chs) + ' g=' + join(',', gs);
  }

  function finishPrev(ctx) {
    if (H.pendingObs !== null) { H.answers.push(H.pendingObs + ' ' + dump(ctx)); H.pendingObs = null; }
  }
  function validChan(c) { return Number.isInteger(c) && c >= 0 && c < H.chans.length; }
  function parseCases(t) {
    if (t === '-') return [];
    return t.split(',').map(k => {
      if (k === 'd') return { k: 'd' };
      if (k[0] === 'r') return { k: 'r', c: Number(k.slice(1)) };
      const [c, v] = k.slice(1).split(':'); return { k: 's', c: Number(c), v: Number(v) };
    });
  }
  const GOR_OPS = new Set(['mk', 'go', 'send', 'recv', 'close', 'sel', 'after', 'exit', 'main']);
  function validIn(ctx, ev) {
    const k = ev[0];
    if (ctx === 'gor') {
      if (!GOR_OPS.has(k)) return false;
      if (k === 'send' || k === 'recv' || k === 'close' || k === 'after') return validChan(Number(ev[1]));
      if (k === 'sel') return parseCases(ev[2]).every(c => c.k === 'd' || validChan(c.c));
      return true;
    }
    if (ctx === 'loop') return k === 'next' || k === 'tick';
    // top level
    if (k === 'mk' || k === 'go') return true;
    if (k === 'fire') {
      const t = H.timers.find(t => t.id === Number(ev[1]));
      if (!t) return false;
      if (t.kind !== 'r') { const c = H.chans[t.chan]; if (c.$sendQueue.length + c.$recvQueue.length > 1) return false; }
      return true;
    }
    return false;
  }
  // next event that is valid in this context; earlier invalid ones are answered `invalid`
  function pull(ctx) {
    for (;;) {
      finishPrev(ctx);
      if (H.pos >= H.events.length) throw STOP;
      const ev = H.events[H.pos++];
      if (validIn(ctx, ev)) return ev;
      H.pendingObs = 'invalid';
    }
  }
  function obs(o) { H.pendingObs = o; }

  function wakeObs(op, r) { // what the resumed frame got from $r.$blk()
    if (op[0] === 'send') return 'sent';
    if (op[0] === 'recv') return 'recv:' + r[0] + ':' + bit(r[1]);
    return r.length > 1 ? 'sel:' + r[0] + ':' + r[1][0] + ':' + bit(r[1][1]) : 'sel:' + r[0];
  }
  function doneObs(op, r) {
    if (op[0] === 'send') return 'ok';
    if (op[0] === 'recv') return 'recv:' + r[0] + ':' + bit(r[1]);
    return r.length > 1 ? 'sel:' + r[0] + ':' + r[1][0] + ':' + bit(r[1][1]) : 'sel:' + r[0];
  }
  function call(op) { // the blocking-capable runtime call of this operation
    switch (op[0]) {
      case 'send': return R.send(H.chans[Number(op[1])], Number(op[2]));
      case 'recv': return R.recv(H.chans[Number(op[1])]);
      case 'sel': {
        H.pick = Number(op[1]) % 12;
        const comms = parseCases(op[2]).map(c => c.k === 'd' ? [] : c.k === 'r' ? [H.chans[c.c]] : [H.chans[c.c], c.v]);
        return R.select(comms);
      }
    }
    throw new Error('bad blocking op ' + op[0]);
  }
  function spawn() {
    const gid = H.gobj.length; H.gobj.push(undefined); H.untagged.push(gid);
    R.go(body, [gid]);
  }
  function simple(op) { // non-blocking operations of a goroutine
    switch (op[0]) {
      case 'mk': H.chans.push(new $Chan($Int, Number(op[1]))); obs('ok'); return;
      case 'go': spawn(); obs('ok'); return;
      case 'close':
        try { R.close(H.chans[Number(op[1])]); obs('ok'); }
        catch (e) { const p = panicName(e); if (p === null) throw e; obs(p); }
        return;
      case 'after': {
        const c = Number(op[1]); H.afterChan = c;
        R.setTimeout(() => { R.close(H.chans[c]); }, 0); obs('ok'); return;
      }
      case 'main': setMain(); obs('ok'); return;
    }
    throw new Error('bad op ' + op[0]);
  }

  // ---- the scripted goroutine, in the shape the compiler emits for a blocking function ----
  const body = function body$1(gid) {
    var { gid, op, $s, $r, $c } = $restore(this, { gid });
    /* */ $s = $s || 0; s: while (true) { switch ($s) { case 0:
      { const s = getState(); s.cur.gid = gid; H.gobj[gid] = s.cur; H.untagged = H.untagged.filter(x => x !== gid); }
      obs('run:' + gid + ':none');
    case 1:
      op = pull('gor');
      if (op[0] === 'exit') { obs('ok'); $s = -1; return; }
      if (op[0] !== 'send' && op[0] !== 'recv' && op[0] !== 'sel') { simple(op); $s = 1; continue; }
      try { $r = call(op); } catch (e) { const p = panicName(e); if (p === null) throw e; obs(p); $s = 1; continue; }
      /* */ $s = 2; case 2: if ($c) { $c = false;
        try { $r = $r.$blk(); } catch (e) { const p = panicName(e); if (p === null) throw e; obs('run:' + gid + ':' + p); $s = 1; continue; }
        obs('run:' + gid + ':' + wakeObs(op, $r)); $s = 1; continue; }
      if ($r && $r.$blk !== undefined) { obs('blocked'); break s; }
      obs(doneObs(op, $r));
      $s = 1; continue;
    /* */ } return; } var $f = { $blk: body$1, $c: true, $r, gid, op, $s }; return $f;
  };

  function runScript(events) {
    reset();
    H = {
      events, pos: 0, answers: [], pendingObs: null, clock: 1000, timers: [], nextTimer: 0, expectStart: false,
      chans: [$chanNil], gobj: [], untagged: [], dead: 0, stray: [], pick: 0, afterChan: -1,
      now() {
        if (this.expectStart) { this.expectStart = false; return this.clock; }
        if (getState().sched.length === 0) return this.clock; // loop is about to end
        const ev = pull('loop');
        if (ev[0] === 'tick') { this.clock += 5; obs('ok'); }
        return this.clock;
      },
      setTimeout(fn, t) {
        const id = this.nextTimer++;
        if (fn === getState().runScheduled) { this.timers.push({ id, fn, kind: 'r' }); this.expectStart = true; }
        else { this.timers.push({ id, fn, kind: 'c' + this.afterChan, chan: this.afterChan }); }
        return id;
      },
      clearTimeout(id) { this.timers = this.timers.filter(t => t.id !== id); },
    };
    try {
      for (;;) {
        const ev = pull('top');
        if (ev[0] === 'mk') { H.chans.push(new $Chan($Int, Number(ev[1]))); obs('ok'); }
        else if (ev[0] === 'go') { obs('idle'); spawn(); }
        else if (ev[0] === 'fire') {
          const t = H.timers.find(t => t.id === Number(ev[1]));
          H.timers = H.timers.filter(x => x !== t);
          if (t.kind === 'r') { obs('idle'); t.fn(); }
          else {
            obs('ok');
            try { t.fn(); } catch (e) { if (e === STOP) throw e; const p = panicName(e); if (p === null) throw e; obs(p); }
          }
        }
      }
    } catch (e) {
      if (e !== STOP) { // the runtime broke down in the middle of the script: the remaining events are answered with the error
        const msg = 'jserror:' + String(e && e.message || e).replace(/[\s|]+/g, '_').slice(0, 80);
        while (H.answers.length < events.length) H.answers.push(msg);
      }
    }
    if (H.stray.length) H.answers[H.answers.length - 1] += ' stray-console-error';
    while (H.answers.length < events.length) H.answers.push('jserror:no-answer');
    H.answers.length = events.length;
    return H.answers.join('|');
  }

  return function (a) {
    if (a[0] !== 'script') return 'bad-op';
    return runScript(a[1].split('|').map(e => e.split('_')));
  };
};
