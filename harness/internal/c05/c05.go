// Package c05 is the implementation side of property C05 (dead-code elimination):
// it compiles a program with the real GopherJS pipeline, extracts the DCE information of
// every declaration of every linked package, runs the REAL selector (through the verif hook),
// links the same archives twice (normally / with every declaration forced alive) and scans the
// emitted artefact for references to declarations that were eliminated.
package c05

import (
	"bytes"
	"fmt"
	"os"
	"os/exec"
	"regexp"
	"sort"
	"strconv"
	"strings"

	"github.com/gopherjs/gopherjs/build"
	"github.com/gopherjs/gopherjs/compiler"
	"github.com/gopherjs/gopherjs/compiler/linkname"

	"gvh/internal/gojs"
)

// DeclInfo is the DCE view of one declaration, parsed from Dce().String().
type DeclInfo struct {
	Pkg      string
	FullName string
	Alive    bool // SetAsAlive was called
	Unnamed  bool
	Link     bool // included as go:linkname implementation
	Obj      string
	Meth     string
	Deps     []string
	Selected bool // selected by the real dce.Selector
	Raw      string
}

// Built is a compiled program: the archives in link order plus the session facts needed to link.
type Built struct {
	Archives  []*compiler.Archive
	GoVersion string
	Decls     []*DeclInfo     // all decls in inclusion order (packages in link order, decls in archive order)
	Ptrs      []*compiler.Decl // same order
}

// Build compiles the main package in dir and returns the archives (not yet linked).
func Build(dir string, tags []string) (b *Built, err error) {
	gojs.Init()
	defer func() {
		if r := recover(); r != nil {
			err = fmt.Errorf("compiler panic: %v", r)
		}
	}()
	s, err := build.NewSession(&build.Options{BuildTags: tags, NoCache: true})
	if err != nil {
		return nil, err
	}
	pkg, err := s.XContext().Import(".", dir, 0)
	if err != nil {
		return nil, err
	}
	archive, err := s.BuildProject(pkg)
	if err != nil {
		return nil, err
	}
	deps, err := compiler.ImportDependencies(archive, s.ImportResolverFor(""))
	if err != nil {
		return nil, err
	}
	b = &Built{Archives: deps, GoVersion: s.GoRelease()}
	sel, links := compiler.VerifDceSelection(deps)
	for i, a := range deps {
		for j, d := range a.Declarations {
			di, perr := ParseInfo(d.Dce().String())
			if perr != nil {
				return nil, fmt.Errorf("cannot parse DCE info %q of %s: %v", d.Dce().String(), d.FullName, perr)
			}
			di.Pkg = a.ImportPath
			di.FullName = d.FullName
			di.Link = links[i][j]
			di.Selected = sel[i][j]
			b.Decls = append(b.Decls, di)
			b.Ptrs = append(b.Ptrs, d)
		}
	}
	return b, nil
}

// Link runs the real WriteProgramCode on the archives.
func (b *Built) Link() (js []byte, err error) {
	defer func() {
		if r := recover(); r != nil {
			err = fmt.Errorf("linker panic: %v", r)
		}
	}()
	var buf bytes.Buffer
	if err := compiler.WriteProgramCode(b.Archives, compiler.DefaultFilter(&buf), b.GoVersion); err != nil {
		return nil, err
	}
	return buf.Bytes(), nil
}

// BuildNative builds the program natively (GOPATH mode, like the GopherJS build of the same directory).
func BuildNative(dir, out string) error {
	cmd := exec.Command("go", "build", "-gcflags=-N -l", "-ldflags=-s -w", "-o", out, ".")
	cmd.Dir = dir
	cmd.Env = append(os.Environ(), "GOFLAGS=", "GOPROXY=off", "GOSUMDB=off", "GOTOOLCHAIN=local", "CGO_ENABLED=0", "GOOS=", "GOARCH=",
		"GO111MODULE=off")
	b, err := cmd.CombinedOutput()
	if err != nil {
		return fmt.Errorf("native build: %v: %s", err, b)
	}
	return nil
}

// SetAllAlive forces every declaration alive (the property's "every declaration is kept" variant).
func (b *Built) SetAllAlive() {
	for _, d := range b.Ptrs {
		d.Dce().SetAsAlive()
	}
}

// EmissionMatches checks that the real linker output contains, for every package, exactly the bytes that
// WritePkgCode produces for the hook's selection: the emitted program is restricted to the selected set
// (compiler.go:226-233) and the hook's selection is the one the linker used.
func (b *Built) EmissionMatches(js []byte) (bad []string) {
	gls := linkname.GoLinknameSet{}
	for _, a := range b.Archives {
		gls.Add(a.GoLinknames)
	}
	selection := map[*compiler.Decl]struct{}{}
	for i, d := range b.Ptrs {
		if b.Decls[i].Selected {
			selection[d] = struct{}{}
		}
	}
	for _, a := range b.Archives {
		var buf bytes.Buffer
		if err := compiler.WritePkgCode(a, selection, gls, false, compiler.DefaultFilter(&buf)); err != nil {
			bad = append(bad, a.ImportPath+": "+err.Error())
			continue
		}
		if !bytes.Contains(js, buf.Bytes()) {
			bad = append(bad, a.ImportPath)
		}
	}
	return bad
}

// splitTop splits s at every occurrence of sep that is not nested inside (), [] or {}.
func splitTop(s, sep string) []string {
	var parts []string
	depth := 0
	start := 0
	for i := 0; i < len(s); i++ {
		switch s[i] {
		case '(', '[', '{':
			depth++
		case ')', ']', '}':
			depth--
		}
		if depth == 0 && strings.HasPrefix(s[i:], sep) {
			parts = append(parts, s[start:i])
			start = i + len(sep)
			i += len(sep) - 1
		}
	}
	return append(parts, s[start:])
}

// ParseInfo parses the output of (*dce.Info).String():
//
//	[alive] [unnamed] <obj> & <meth> -> [dep, dep, ...]
func ParseInfo(raw string) (*DeclInfo, error) {
	di := &DeclInfo{Raw: raw}
	s := raw
	if strings.HasPrefix(s, "[alive] ") {
		di.Alive = true
		s = s[len("[alive] "):]
	}
	if strings.HasPrefix(s, "[unnamed] ") {
		di.Unnamed = true
		s = s[len("[unnamed] "):]
	}
	// the arrow is outside all brackets; names never contain "-> [" at depth 0
	idx := -1
	depth := 0
	for i := 0; i < len(s); i++ {
		switch s[i] {
		case '(', '[', '{':
			depth++
		case ')', ']', '}':
			depth--
		}
		if depth == 0 && strings.HasPrefix(s[i:], "-> [") {
			idx = i
			break
		}
	}
	if idx < 0 || !strings.HasSuffix(s, "]") {
		return nil, fmt.Errorf("no arrow")
	}
	names := s[:idx]
	deps := s[idx+len("-> [") : len(s)-1]
	if names != "" {
		if !strings.HasSuffix(names, " ") {
			return nil, fmt.Errorf("names without trailing blank")
		}
		ns := splitTop(names[:len(names)-1], " & ")
		switch len(ns) {
		case 1:
			// a single name is the object filter unless only the method filter is set; the object filter
			// of a declaration is never empty when the method filter is set (filters.go:22-48), and method
			// filters always contain a parameter list.
			di.Obj = ns[0]
		case 2:
			di.Obj, di.Meth = ns[0], ns[1]
		default:
			return nil, fmt.Errorf("%d names", len(ns))
		}
	}
	if di.Unnamed != (di.Obj == "" && di.Meth == "") {
		return nil, fmt.Errorf("unnamed flag inconsistent")
	}
	if deps != "" {
		di.Deps = splitTop(deps, ", ")
		// getDeps() is sorted; a mis-split would (almost always) break the order
		if !sort.StringsAreSorted(di.Deps) {
			return nil, fmt.Errorf("deps not sorted after split")
		}
	}
	return di, nil
}

// ModelLine renders the decl table as one operation line for the Lean driver. Filter and dependency
// names are interned: the selector only ever compares names for equality and against the empty
// string, so an injective renaming that keeps "" ("-") does not change its behaviour.
//
//	dce select <order> <pick> <decl> <decl> ...     decl = <alive 0/1><link 0/1>:<obj>:<meth>:<dep>,<dep>..
func ModelLine(decls []*DeclInfo, order, pick string) string {
	ids := map[string]int{}
	id := func(s string) string {
		if s == "" {
			return "-"
		}
		n, ok := ids[s]
		if !ok {
			n = len(ids) + 1
			ids[s] = n
		}
		return strconv.Itoa(n)
	}
	var sb strings.Builder
	sb.WriteString("dce select " + order + " " + pick)
	for _, d := range decls {
		sb.WriteByte(' ')
		if d.Alive {
			sb.WriteByte('1')
		} else {
			sb.WriteByte('0')
		}
		if d.Link {
			sb.WriteByte('1')
		} else {
			sb.WriteByte('0')
		}
		sb.WriteByte(':')
		sb.WriteString(id(d.Obj))
		sb.WriteByte(':')
		sb.WriteString(id(d.Meth))
		sb.WriteByte(':')
		if len(d.Deps) == 0 {
			sb.WriteByte('-')
		}
		for k, dep := range d.Deps {
			if k > 0 {
				sb.WriteByte(',')
			}
			sb.WriteString(id(dep))
		}
	}
	return sb.String()
}

// SelectedLine renders the real selection in the driver's answer format (sorted positions).
func SelectedLine(decls []*DeclInfo) string {
	var parts []string
	for i, d := range decls {
		if d.Selected {
			parts = append(parts, strconv.Itoa(i))
		}
	}
	if len(parts) == 0 {
		return "-"
	}
	return strings.Join(parts, ",")
}

// ---------------------------------------------------------------------------------------------
// Artefact closure scan
// ---------------------------------------------------------------------------------------------

var identRe = regexp.MustCompile(`[A-Za-z_$][A-Za-z0-9_$]*`)

// stripLiterals blanks out string literals and comments of generated JS so identifiers inside them are not seen.
func stripLiterals(code []byte) []byte {
	out := make([]byte, len(code))
	copy(out, code)
	i := 0
	for i < len(out) {
		c := out[i]
		switch {
		case c == '"' || c == '\'' || c == '`':
			q := c
			j := i + 1
			for j < len(out) && out[j] != q {
				if out[j] == '\\' {
					out[j] = ' '
					j++
					if j < len(out) {
						out[j] = ' '
					}
					j++
					continue
				}
				out[j] = ' '
				j++
			}
			i = j + 1
		case c == '/' && i+1 < len(out) && out[i+1] == '*':
			j := i + 2
			for j+1 < len(out) && !(out[j] == '*' && out[j+1] == '/') {
				out[j] = ' '
				j++
			}
			i = j + 2
		case c == '/' && i+1 < len(out) && out[i+1] == '/':
			j := i
			for j < len(out) && out[j] != '\n' {
				out[j] = ' '
				j++
			}
			i = j
		default:
			i++
		}
	}
	return out
}

func declCode(d *compiler.Decl) []byte {
	return bytes.Join([][]byte{d.TypeDeclCode, d.ExportTypeCode, d.AnonTypeDeclCode, d.FuncDeclCode, d.ExportFuncCode,
		d.MethodListCode, d.TypeInitCode, d.InitCode}, []byte("\n"))
}

// ClosureScan checks the emitted artefact statically: every package-level JS variable that the code of a
// selected declaration mentions must be declared (Decl.Vars) by some selected declaration of that package, and
// every `imp.Name` member read through an import variable must be exported (`$pkg.Name = `) by a selected
// declaration of the imported package. Returns the offending references.
func (b *Built) ClosureScan() (bad []string, refs int) {
	type pkgFacts struct {
		liveVars, deadVars map[string]bool
		liveExports        map[string]bool
		deadExports        map[string]bool
	}
	facts := map[string]*pkgFacts{}
	exportRe := regexp.MustCompile(`\$pkg\.([A-Za-z_$][A-Za-z0-9_$]*) = `)
	pos := 0
	for _, a := range b.Archives {
		f := &pkgFacts{map[string]bool{}, map[string]bool{}, map[string]bool{}, map[string]bool{}}
		facts[a.ImportPath] = f
		for _, d := range a.Declarations {
			live := b.Decls[pos].Selected
			pos++
			for _, v := range d.Vars {
				if live {
					f.liveVars[v] = true
				} else {
					f.deadVars[v] = true
				}
			}
			for _, m := range exportRe.FindAllSubmatch(declCode(d), -1) {
				if live {
					f.liveExports[string(m[1])] = true
				} else {
					f.deadExports[string(m[1])] = true
				}
			}
		}
	}
	importRe := regexp.MustCompile(`([A-Za-z_$][A-Za-z0-9_$]*) = \$packages\["([^"]+)"\];`)
	pos = 0
	for _, a := range b.Archives {
		f := facts[a.ImportPath]
		imports := map[string]string{}
		for _, d := range a.Declarations {
			for _, m := range importRe.FindAllSubmatch(d.ImportCode, -1) {
				imports[string(m[1])] = string(m[2])
			}
		}
		for _, d := range a.Declarations {
			live := b.Decls[pos].Selected
			name := b.Decls[pos].FullName
			pos++
			if !live {
				continue
			}
			code := stripLiterals(declCode(d))
			for _, loc := range identRe.FindAllIndex(code, -1) {
				id := string(code[loc[0]:loc[1]])
				if loc[0] > 0 && code[loc[0]-1] == '.' {
					continue // member name
				}
				if f.deadVars[id] && !f.liveVars[id] {
					refs++
					bad = append(bad, fmt.Sprintf("%s: %s uses package-level variable %s declared only by eliminated declarations", a.ImportPath, name, id))
					continue
				}
				if f.liveVars[id] {
					refs++
				}
				if imp, ok := imports[id]; ok && loc[1] < len(code) && code[loc[1]] == '.' {
					m := identRe.FindIndex(code[loc[1]+1:])
					if m == nil || m[0] != 0 {
						continue
					}
					member := string(code[loc[1]+1 : loc[1]+1+m[1]])
					g := facts[imp]
					if g == nil {
						continue
					}
					refs++
					if g.deadExports[member] && !g.liveExports[member] {
						bad = append(bad, fmt.Sprintf("%s: %s reads %s.%s exported only by eliminated declarations", a.ImportPath, name, imp, member))
					}
				}
			}
		}
	}
	return bad, refs
}

// ---------------------------------------------------------------------------------------------
// Method-name reference scan ("deps complete" for methods reached by NAME at run time)
// ---------------------------------------------------------------------------------------------

// jsMembers are member names the translator / prelude call on JS values; a `.name(` with one of these names is not
// evidence of a Go method call.
var jsMembers = map[string]bool{"apply": true, "call": true, "bind": true, "keyFor": true, "charCodeAt": true, "push": true,
	"getUint32": true, "setUint32": true, "zero": true, "set": true, "get": true, "delete": true, "has": true, "ptr": true,
	"next": true, "log": true, "keys": true, "values": true, "entries": true, "elem": true, "init": true, "copy": true,
	"concat": true, "slice": true, "subarray": true, "indexOf": true, "join": true, "toString": true, "constructor": true,
	"nil": true, "length": true, "substring": true, "wrap": true, "exit": true}

var ifaceMethodExprRe = regexp.MustCompile(`\$ifaceMethodExpr\("([A-Za-z_][A-Za-z0-9_]*)"\)`)
var callMemberRe = regexp.MustCompile(`\.([a-z_][A-Za-z0-9_]*)\(`)

// lastStringArg returns the last argument of the call whose opening parenthesis is at code[open], when that argument
// is a string literal `"name"`.
func lastStringArg(code []byte, open int) (string, bool) {
	depth := 0
	for i := open; i < len(code); i++ {
		switch code[i] {
		case '(':
			depth++
		case ')':
			depth--
			if depth == 0 {
				// expect ... , "name")
				j := i - 1
				if j < 0 || code[j] != '"' {
					return "", false
				}
				k := j - 1
				for k >= 0 && code[k] != '"' {
					k--
				}
				if k < 0 {
					return "", false
				}
				return string(code[k+1 : j]), true
			}
		case '"':
			i++
			for i < len(code) && code[i] != '"' {
				if code[i] == '\\' {
					i++
				}
				i++
			}
		}
	}
	return "", false
}

func unexportedName(n string) bool { return n != "" && !(n[0] >= 'A' && n[0] <= 'Z') }

// MethodRefScan checks, on the code of every SELECTED declaration, that a reference to an unexported method BY NAME
//   - $ifaceMethodExpr("m")            method expression on an interface type
//   - $methodVal(recv, "m")            method value
//   - $methodExpr(T, "m")              method expression on a concrete type
//   - recv.m(                          call (interface or concrete receiver; JS member names excluded)
// is accompanied by a recorded dependency on a method filter `<pkg>.m(<signature>)` of the same declaration, whenever
// some type of that package declares an unexported method m (i.e. there is a declaration that only this dependency
// can keep alive).  Returns the offending references and the number of references checked per kind.
func (b *Built) MethodRefScan() (bad []string, checked map[string]int) {
	checked = map[string]int{}
	// unexported method names declared per package, from the method filters of method declarations
	declared := map[string]map[string]bool{}
	for _, d := range b.Decls {
		if d.Meth == "" || !strings.HasPrefix(d.Meth, d.Pkg+".") {
			continue
		}
		rest := d.Meth[len(d.Pkg)+1:]
		if i := strings.IndexByte(rest, '('); i > 0 {
			if declared[d.Pkg] == nil {
				declared[d.Pkg] = map[string]bool{}
			}
			declared[d.Pkg][rest[:i]] = true
		}
	}
	for i, d := range b.Ptrs {
		di := b.Decls[i]
		if !di.Selected || declared[di.Pkg] == nil {
			continue
		}
		raw := declCode(d)
		refs := map[string]string{} // name -> kind of the first reference
		add := func(name, kind string) {
			if unexportedName(name) && declared[di.Pkg][name] {
				checked[kind]++
				if _, ok := refs[name]; !ok {
					refs[name] = kind
				}
			}
		}
		for _, m := range ifaceMethodExprRe.FindAllSubmatch(raw, -1) {
			add(string(m[1]), "ifaceMethodExpr")
		}
		for _, fn := range []string{"$methodVal(", "$methodExpr("} {
			from := 0
			for {
				k := bytes.Index(raw[from:], []byte(fn))
				if k < 0 {
					break
				}
				open := from + k + len(fn) - 1
				if name, ok := lastStringArg(raw, open); ok {
					add(name, fn[1:len(fn)-1])
				}
				from = open + 1
			}
		}
		for _, m := range callMemberRe.FindAllSubmatch(stripLiterals(raw), -1) {
			if !jsMembers[string(m[1])] {
				add(string(m[1]), "call")
			}
		}
		names := make([]string, 0, len(refs))
		for n := range refs {
			names = append(names, n)
		}
		sort.Strings(names)
		for _, n := range names {
			prefix := di.Pkg + "." + n + "("
			// the declaration of method n itself contains the receiver-adapting wrappers `this.$val.n(…)` / `this.$get().n(…)`
			found := strings.HasPrefix(di.Meth, prefix)
			for _, dep := range di.Deps {
				if strings.HasPrefix(dep, prefix) {
					found = true
					break
				}
			}
			if !found {
				bad = append(bad, fmt.Sprintf("%s: %s refers to unexported method %q by name (%s) but records no dependency on %s…)",
					di.Pkg, di.FullName, n, refs[n], prefix))
			}
		}
	}
	return bad, checked
}
