// Package gojs compiles Go programs with the real GopherJS pipeline (in process, from
// /repo's working tree), runs the result under Node and runs the same program natively.
package gojs

import (
	"bytes"
	"context"
	"fmt"
	"net/http"
	"os"
	"os/exec"
	"path/filepath"
	"strings"
	"sync"
	"time"

	"github.com/gopherjs/gopherjs/build"
	"github.com/gopherjs/gopherjs/compiler"
	"github.com/gopherjs/gopherjs/compiler/gopherjspkg"
)

var once sync.Once

// Repo returns the repository root the harness is tied to.
func Repo() string {
	if r := os.Getenv("VERIF_REPO"); r != "" {
		return r
	}
	return "/repo"
}

// Init registers the gopherjs js/ and nosync/ sources (read from the repo's working tree).
func Init() {
	once.Do(func() {
		os.Setenv("GOPHERJS_SKIP_VERSION_CHECK", "true")
		gopherjspkg.RegisterFS(http.FS(os.DirFS(Repo())))
	})
}

// Options of one compilation.
type Options struct {
	Minify    bool
	Tags      []string
	MapFile   bool
	AllAlive  bool // mark every declaration alive before linking (DCE off)
	NoCache   bool
}

// Result of a compilation.
type Result struct {
	JS       []byte
	Archives []*compiler.Archive
	Err      error
}

// Compile builds the main package in dir (a module directory with go.mod) and links it.
func Compile(dir string, o Options) (res Result) {
	Init()
	defer func() {
		if r := recover(); r != nil {
			res.Err = fmt.Errorf("compiler panic: %v", r)
		}
	}()
	opts := &build.Options{Minify: o.Minify, BuildTags: o.Tags, NoCache: true}
	s, err := build.NewSession(opts)
	if err != nil {
		return Result{Err: err}
	}
	pkg, err := s.XContext().Import(".", dir, 0)
	if err != nil {
		return Result{Err: err}
	}
	archive, err := s.BuildProject(pkg)
	if err != nil {
		return Result{Err: err}
	}
	deps, err := compiler.ImportDependencies(archive, s.ImportResolverFor(""))
	if err != nil {
		return Result{Err: err}
	}
	if o.AllAlive {
		for _, a := range deps {
			for _, d := range a.Declarations {
				d.Dce().SetAsAlive()
			}
		}
	}
	var buf bytes.Buffer
	if err := compiler.WriteProgramCode(deps, compiler.DefaultFilter(&buf), s.GoRelease()); err != nil {
		return Result{Err: err}
	}
	return Result{JS: buf.Bytes(), Archives: deps}
}

// RunResult is the canonical observation of one execution.
type RunResult struct {
	Stdout   string
	Stderr   string
	Exit     int
	TimedOut bool
}

// Class returns the termination class: exit0 | panic | deadlock | exit<N> | timeout.
func (r RunResult) Class() string {
	switch {
	case r.TimedOut:
		return "timeout"
	case r.Exit == 0:
		return "exit0"
	case strings.Contains(r.Stderr, "all goroutines are asleep"):
		return "deadlock"
	case strings.Contains(r.Stderr, "panic: ") || strings.Contains(r.Stderr, "panic:") || strings.Contains(r.Stderr, "fatal error"):
		return "panic"
	case strings.Contains(r.Stderr, "Error"):
		return "jserror"
	}
	return fmt.Sprintf("exit%d", r.Exit)
}

func run(timeout time.Duration, dir string, env []string, name string, args ...string) RunResult {
	ctx, cancel := context.WithTimeout(context.Background(), timeout)
	defer cancel()
	cmd := exec.CommandContext(ctx, name, args...)
	cmd.Dir = dir
	cmd.Env = append(os.Environ(), env...)
	var so, se bytes.Buffer
	cmd.Stdout, cmd.Stderr = &so, &se
	err := cmd.Run()
	r := RunResult{Stdout: so.String(), Stderr: se.String()}
	if ctx.Err() == context.DeadlineExceeded {
		r.TimedOut = true
		return r
	}
	if err != nil {
		if ee, ok := err.(*exec.ExitError); ok {
			r.Exit = ee.ExitCode()
		} else {
			r.Exit = -1
			r.Stderr += err.Error()
		}
	}
	return r
}

// RunNode runs a JS file under node.
func RunNode(jsPath string, timeout time.Duration, env ...string) RunResult {
	return run(timeout, filepath.Dir(jsPath), env, "node", "--stack-size=2000", "--max-old-space-size=1024", jsPath)
}

// BuildNative builds dir natively to out.
func BuildNative(dir, out string) error {
	cmd := exec.Command("go", "build", "-o", out, ".")
	cmd.Dir = dir
	cmd.Env = append(os.Environ(), "GOFLAGS=-mod=mod", "GOPROXY=off", "GOSUMDB=off", "GOTOOLCHAIN=local", "CGO_ENABLED=0", "GOOS=", "GOARCH=")
	b, err := cmd.CombinedOutput()
	if err != nil {
		return fmt.Errorf("native build: %v: %s", err, b)
	}
	return nil
}

// RunNative runs a native binary.
func RunNative(bin string, timeout time.Duration, env ...string) RunResult {
	return run(timeout, filepath.Dir(bin), env, bin)
}

// WriteModule writes files into dir and a go.mod for module name `mod`.
// The go.mod replaces github.com/gopherjs/gopherjs with the repo so `js` imports resolve natively.
func WriteModule(dir, mod string, files map[string]string) error {
	if err := os.MkdirAll(dir, 0o755); err != nil {
		return err
	}
	gomod := "module " + mod + "\n\ngo 1.20\n"
	if _, ok := files["go.mod"]; !ok {
		files["go.mod"] = gomod
	}
	for name, src := range files {
		p := filepath.Join(dir, name)
		if err := os.MkdirAll(filepath.Dir(p), 0o755); err != nil {
			return err
		}
		if err := os.WriteFile(p, []byte(src), 0o644); err != nil {
			return err
		}
	}
	return nil
}
