// gvh_c16 — implementation side of the C16 check (minification preserves behaviour).
//
//	gvh_c16 ops     line protocol on stdin, one answer line per op, against the REAL code of the repo:
//	    rw x <hex>                 removeWhitespace(b, true)            -> <hex> | panic
//	    rw id <hex>                removeWhitespace(b, false)           -> <hex>
//	    rw ns <byte>               needsSpace                           -> 0|1
//	    nm new <0|1>               fresh scope tree, root by newRootCtx -> ok
//	    nm child <p> <hexname>     nestedFunctionContext under scope p  -> <id> <hex funcRef>
//	    nm req <s> <hexname> <0|1> newVariable(name, pkgLevel) on s     -> <hex name>
//	    nm gchild <p> <hexname>    the same for an instantiation of a generic function -> <id> <hex funcRef>
//	    nm ptr <s> <v> <hexname> <0|1>  varPtrName of variable #v on s   -> <hex name>
//	    nm obj <s> <o> <hexname> <0|1>  objectName of object #o on s (1 = named type declared in a function) -> <hex name>
//	    nm cnt <s> <hexname>       allVars[name] of scope s             -> <n>
//	    nm locals <s>              localVars of scope s                 -> comma list of hex
//	    nm kw                      reservedKeywords, sorted             -> comma list
//	    nm enc <hex>               encodeIdent                          -> <hex>
//	gvh_c16 incjs   JSON jobs {id, files}; per .inc.js file of every compiled package the three segments the REAL
//	                compiler.WritePkgCode writes (wrapper head, JS, wrapper tail), plain and minified
//	gvh_c16 decls   JSON jobs {id, files} on stdin; compiles each program WITHOUT minification and
//	                prints one JSON line {id, err, codes:[hex of every distinct non-empty Decl code field]}
package main

import (
	"bufio"
	"crypto/sha1"
	"encoding/hex"
	"encoding/json"
	"fmt"
	"os"
	"path/filepath"
	"strconv"
	"strings"

	"github.com/gopherjs/gopherjs/compiler"
	"github.com/gopherjs/gopherjs/compiler/linkname"

	"gvh/internal/gojs"
)

func unhex(s string) ([]byte, bool) {
	if s == "-" {
		return []byte{}, true
	}
	b, err := hex.DecodeString(s)
	return b, err == nil
}

func hexs(b []byte) string {
	if len(b) == 0 {
		return "-"
	}
	return hex.EncodeToString(b)
}

var scopes *compiler.VerifC16Scopes

func answer(w []string) string {
	if len(w) < 2 {
		return "bad-op"
	}
	switch w[0] {
	case "rw":
		switch w[1] {
		case "x", "id":
			if len(w) != 3 {
				return "bad-op"
			}
			b, ok := unhex(w[2])
			if !ok {
				return "bad-op"
			}
			// cap == len: reads past the end must fail like they do on an exact slice
			b = b[:len(b):len(b)]
			out, p := compiler.VerifC16RemoveWhitespace(b, w[1] == "x")
			if p != "" {
				return "panic"
			}
			return hexs(out)
		case "ns":
			n, err := strconv.Atoi(w[2])
			if err != nil || n < 0 || n > 255 {
				return "bad-op"
			}
			if compiler.VerifC16NeedsSpace(byte(n)) {
				return "1"
			}
			return "0"
		}
	case "nm":
		switch w[1] {
		case "new":
			scopes = compiler.VerifC16NewScopes(w[2] == "1")
			return "ok"
		case "kw":
			return strings.Join(compiler.VerifC16ReservedKeywords(), ",")
		case "enc":
			b, ok := unhex(w[2])
			if !ok {
				return "bad-op"
			}
			return hexs([]byte(compiler.VerifC16EncodeIdent(string(b))))
		}
		if scopes == nil || len(w) < 3 {
			return "bad-op"
		}
		s, err := strconv.Atoi(w[2])
		if err != nil || s < 0 || s >= scopes.Len() {
			return "bad-scope"
		}
		switch w[1] {
		case "child", "gchild":
			name, ok := unhex(w[3])
			if !ok {
				return "bad-op"
			}
			mk := scopes.Child
			if w[1] == "gchild" {
				mk = scopes.ChildGeneric
			}
			id, ref, p := mk(s, string(name))
			if p != "" {
				return "panic"
			}
			return fmt.Sprintf("%d %s", id, hexs([]byte(ref)))
		case "req":
			name, ok := unhex(w[3])
			if !ok || len(w) != 5 {
				return "bad-op"
			}
			r, p := scopes.NewVariable(s, string(name), w[4] == "1")
			if p != "" {
				return "panic"
			}
			return hexs([]byte(r))
		case "ptr":
			if len(w) != 6 {
				return "bad-op"
			}
			vid, err := strconv.Atoi(w[3])
			name, ok := unhex(w[4])
			if err != nil || !ok {
				return "bad-op"
			}
			r, p := scopes.VarPtrName(s, vid, string(name), w[5] == "1")
			if p != "" {
				return "panic"
			}
			return hexs([]byte(r))
		case "obj":
			if len(w) != 6 {
				return "bad-op"
			}
			oid, err := strconv.Atoi(w[3])
			name, ok := unhex(w[4])
			if err != nil || !ok {
				return "bad-op"
			}
			r, p := scopes.ObjectName(s, oid, string(name), w[5] == "1")
			if p != "" {
				return "panic"
			}
			return hexs([]byte(r))
		case "cnt":
			name, ok := unhex(w[3])
			if !ok {
				return "bad-op"
			}
			return strconv.Itoa(scopes.Count(s, string(name)))
		case "locals":
			var l []string
			for _, v := range scopes.LocalVars(s) {
				l = append(l, hexs([]byte(v)))
			}
			if len(l) == 0 {
				return "-"
			}
			return strings.Join(l, ",")
		}
	}
	return "bad-op"
}

// recorder keeps every Write call as one segment.
type recorder struct{ segs [][]byte }

func (r *recorder) Write(p []byte) (int, error) {
	r.segs = append(r.segs, append([]byte(nil), p...))
	return len(p), nil
}

// pkgSegments runs the REAL compiler.WritePkgCode on the archive and returns the segments it writes for the
// .inc.js files (wrapper head, JS code, wrapper tail per file), in write order.
func pkgSegments(a *compiler.Archive, minify bool) (segs [][]byte, err error) {
	defer func() {
		if r := recover(); r != nil {
			err = fmt.Errorf("panic: %v", r)
		}
	}()
	sel := map[*compiler.Decl]struct{}{}
	for _, d := range a.Declarations {
		sel[d] = struct{}{}
	}
	rec := &recorder{}
	if err := compiler.WritePkgCode(a, sel, linkname.GoLinknameSet{}, minify, compiler.DefaultFilter(rec)); err != nil {
		return nil, err
	}
	n := 3 * len(a.IncJSCode)
	if len(rec.segs) < n {
		return nil, fmt.Errorf("WritePkgCode wrote %d segments for %d .inc.js files", len(rec.segs), len(a.IncJSCode))
	}
	return rec.segs[:n], nil
}

type incSeg struct {
	Pkg   string   `json:"pkg"`
	File  string   `json:"file"`
	Plain []string `json:"plain"` // head, js, tail as written without minification (hex)
	Min   []string `json:"min"`   // the same three segments with minification
}

type incOut struct {
	ID   string   `json:"id"`
	Err  string   `json:"err,omitempty"`
	Segs []incSeg `json:"segs"`
}

type job struct {
	ID    string            `json:"id"`
	Files map[string]string `json:"files"`
}

type declsOut struct {
	ID    string   `json:"id"`
	Err   string   `json:"err,omitempty"`
	Codes []string `json:"codes"`
	Pkgs  int      `json:"pkgs"`
	Decls int      `json:"decls"`
}

func main() {
	if len(os.Args) < 2 {
		fmt.Fprintln(os.Stderr, "usage: gvh_c16 ops|decls")
		os.Exit(2)
	}
	out := bufio.NewWriterSize(os.Stdout, 1<<20)
	defer out.Flush()
	switch os.Args[1] {
	case "ops":
		sc := bufio.NewScanner(os.Stdin)
		sc.Buffer(make([]byte, 1<<20), 1<<28)
		for sc.Scan() {
			fmt.Fprintln(out, answer(strings.Fields(sc.Text())))
		}
	case "decls":
		scratch, err := os.MkdirTemp(os.Getenv("VERIF_SCRATCH"), "gvc16-")
		if err != nil {
			fmt.Fprintln(os.Stderr, err)
			os.Exit(2)
		}
		defer os.RemoveAll(scratch)
		seen := map[[20]byte]bool{}
		dec := json.NewDecoder(os.Stdin)
		enc := json.NewEncoder(out)
		n := 0
		for dec.More() {
			var j job
			if err := dec.Decode(&j); err != nil {
				fmt.Fprintln(os.Stderr, "bad job:", err)
				os.Exit(2)
			}
			n++
			dir := filepath.Join(scratch, fmt.Sprintf("p%d", n))
			res := declsOut{ID: j.ID, Codes: []string{}}
			if err := gojs.WriteModule(dir, "gvprog", j.Files); err != nil {
				res.Err = err.Error()
				enc.Encode(res)
				continue
			}
			c := gojs.Compile(dir, gojs.Options{})
			if c.Err != nil {
				res.Err = c.Err.Error()
				enc.Encode(res)
				continue
			}
			for _, a := range c.Archives {
				res.Pkgs++
				for _, d := range a.Declarations {
					res.Decls++
					for _, code := range [][]byte{d.ImportCode, d.TypeDeclCode, d.ExportTypeCode, d.AnonTypeDeclCode,
						d.FuncDeclCode, d.ExportFuncCode, d.MethodListCode, d.TypeInitCode, d.InitCode} {
						if len(code) == 0 {
							continue
						}
						h := sha1.Sum(code)
						if seen[h] {
							continue
						}
						seen[h] = true
						res.Codes = append(res.Codes, hex.EncodeToString(code))
					}
				}
			}
			os.RemoveAll(dir)
			enc.Encode(res)
		}
	case "incjs":
		// JSON jobs {id, files}: compile, then the segments the real WritePkgCode writes around every .inc.js file
		scratch, err := os.MkdirTemp(os.Getenv("VERIF_SCRATCH"), "gvc16i-")
		if err != nil {
			fmt.Fprintln(os.Stderr, err)
			os.Exit(2)
		}
		defer os.RemoveAll(scratch)
		dec := json.NewDecoder(os.Stdin)
		enc := json.NewEncoder(out)
		n := 0
		for dec.More() {
			var j job
			if err := dec.Decode(&j); err != nil {
				fmt.Fprintln(os.Stderr, "bad job:", err)
				os.Exit(2)
			}
			n++
			dir := filepath.Join(scratch, fmt.Sprintf("p%d", n))
			res := incOut{ID: j.ID, Segs: []incSeg{}}
			if err := gojs.WriteModule(dir, "gvprog", j.Files); err != nil {
				res.Err = err.Error()
				enc.Encode(res)
				continue
			}
			c := gojs.Compile(dir, gojs.Options{})
			if c.Err != nil {
				res.Err = c.Err.Error()
				enc.Encode(res)
				continue
			}
			for _, a := range c.Archives {
				if len(a.IncJSCode) == 0 {
					continue
				}
				pl, err1 := pkgSegments(a, false)
				mi, err2 := pkgSegments(a, true)
				if err1 != nil || err2 != nil {
					res.Err = fmt.Sprint(err1, err2)
					break
				}
				for i, f := range a.IncJSCode {
					sg := incSeg{Pkg: a.ImportPath, File: filepath.Base(f.Path)}
					for k := 0; k < 3; k++ {
						sg.Plain = append(sg.Plain, hexs(pl[3*i+k]))
						sg.Min = append(sg.Min, hexs(mi[3*i+k]))
					}
					res.Segs = append(res.Segs, sg)
				}
			}
			os.RemoveAll(dir)
			enc.Encode(res)
		}
	default:
		fmt.Fprintln(os.Stderr, "gvh_c16: unknown command", os.Args[1])
		os.Exit(2)
	}
}
