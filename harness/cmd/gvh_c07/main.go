// gvh_c07 — facts about /repo's compiler sources for the C07 check.
//
//	gvh_c07 sites <dir>   every place in the non-test Go files of <dir> that emits a value copy:
//	                      a string literal containing "$clone(" or ".copy(", or a call of
//	                      translateImplicitConversionWithCloning; one line `file<TAB>func<TAB>what<TAB>line`.
//	                      For translateAssign additionally the DECISION "copy in place vs rebind": every return
//	                      statement that precedes the `.copy(` emission, with the chain of conditions guarding it
//	                      (`what` = "return-before-copy: <conds> => <format string>"), and the guards of `.copy(` itself.
package main

import (
	"bytes"
	"fmt"
	"go/ast"
	"go/parser"
	"go/printer"
	"go/token"
	"os"
	"path/filepath"
	"sort"
	"strings"
)

func main() {
	if len(os.Args) < 3 || os.Args[1] != "sites" {
		fmt.Fprintln(os.Stderr, "usage: gvh_c07 sites <dir>")
		os.Exit(2)
	}
	dir := os.Args[2]
	fset := token.NewFileSet()
	names, err := filepath.Glob(filepath.Join(dir, "*.go"))
	if err != nil {
		panic(err)
	}
	sort.Strings(names)
	for _, name := range names {
		if strings.HasSuffix(name, "_test.go") || strings.HasPrefix(filepath.Base(name), "verif_hooks") {
			continue
		}
		f, err := parser.ParseFile(fset, name, nil, 0)
		if err != nil {
			fmt.Fprintln(os.Stderr, err)
			os.Exit(1)
		}
		for _, d := range f.Decls {
			fd, ok := d.(*ast.FuncDecl)
			if !ok || fd.Body == nil {
				continue
			}
			if fd.Name.Name == "translateAssign" {
				assignDecision(fset, filepath.Base(name), fd)
			}
			if fd.Name.Name == "translateArgs" {
				guardedCalls(fset, filepath.Base(name), fd, map[string]bool{"translateImplicitConversionWithCloning": true, "translateImplicitConversion": true, "translateExpr": true, "translateConversion": true})
			}
			if fd.Name.Name == "makeReceiver" {
				receiverDecision(fset, filepath.Base(name), fd)
			}
			ast.Inspect(fd.Body, func(n ast.Node) bool {
				switch x := n.(type) {
				case *ast.BasicLit:
					if x.Kind == token.STRING {
						for _, what := range []string{"$clone(", ".copy("} {
							if strings.Contains(x.Value, what) {
								fmt.Printf("%s\t%s\t%s\t%d\n", filepath.Base(name), fd.Name.Name, what, fset.Position(x.Pos()).Line)
							}
						}
					}
				case *ast.CallExpr:
					if s, ok := x.Fun.(*ast.SelectorExpr); ok && s.Sel.Name == "translateImplicitConversionWithCloning" {
						fmt.Printf("%s\t%s\t%s\t%d\n", filepath.Base(name), fd.Name.Name, s.Sel.Name, fset.Position(x.Pos()).Line)
					}
				}
				return true
			})
		}
	}
}

func src(fset *token.FileSet, n ast.Node) string {
	var b bytes.Buffer
	printer.Fprint(&b, fset, n)
	return strings.Join(strings.Fields(b.String()), " ")
}

// assignDecision prints, for translateAssign, the guarded returns that come before the in-place `T.copy(dst, src)`
// emission and the guards of that emission.
func assignDecision(fset *token.FileSet, file string, fd *ast.FuncDecl) {
	var copyPos token.Pos
	ast.Inspect(fd.Body, func(n ast.Node) bool {
		if x, ok := n.(*ast.BasicLit); ok && x.Kind == token.STRING && strings.Contains(x.Value, ".copy(") && copyPos == 0 {
			copyPos = x.Pos()
		}
		return true
	})
	if copyPos == 0 {
		fmt.Printf("%s\t%s\tno-in-place-copy\t0\n", file, fd.Name.Name)
		return
	}
	var walk func(n ast.Node, conds []string)
	walk = func(n ast.Node, conds []string) {
		switch x := n.(type) {
		case nil:
			return
		case *ast.BlockStmt:
			for _, st := range x.List {
				walk(st, conds)
			}
		case *ast.IfStmt:
			c := src(fset, x.Cond)
			if x.Init != nil {
				c = src(fset, x.Init) + "; " + c
			}
			walk(x.Body, append(append([]string{}, conds...), c))
			if x.Else != nil {
				walk(x.Else, append(append([]string{}, conds...), "!("+c+")"))
			}
		case *ast.SwitchStmt:
			tag := ""
			if x.Tag != nil {
				tag = src(fset, x.Tag)
			}
			for _, cc := range x.Body.List {
				cl := cc.(*ast.CaseClause)
				var ls []string
				for _, e := range cl.List {
					ls = append(ls, src(fset, e))
				}
				c := "switch " + tag + " case " + strings.Join(ls, ",")
				for _, st := range cl.Body {
					walk(st, append(append([]string{}, conds...), c))
				}
			}
		case *ast.TypeSwitchStmt:
			tag := src(fset, x.Assign)
			for _, cc := range x.Body.List {
				cl := cc.(*ast.CaseClause)
				var ls []string
				for _, e := range cl.List {
					ls = append(ls, src(fset, e))
				}
				c := "switch " + tag + " case " + strings.Join(ls, ",")
				for _, st := range cl.Body {
					walk(st, append(append([]string{}, conds...), c))
				}
			}
		case *ast.ReturnStmt:
			format := ""
			ast.Inspect(x, func(m ast.Node) bool {
				if l, ok := m.(*ast.BasicLit); ok && l.Kind == token.STRING && format == "" {
					format = l.Value
				}
				return true
			})
			if x.Pos() < copyPos {
				fmt.Printf("%s\t%s\treturn-before-copy: %s => %s\t%d\n", file, fd.Name.Name, strings.Join(conds, " && "), format, fset.Position(x.Pos()).Line)
			} else if x.Pos() <= copyPos && copyPos <= x.End() {
				fmt.Printf("%s\t%s\tcopy-guards: %s\t%d\n", file, fd.Name.Name, strings.Join(conds, " && "), fset.Position(x.Pos()).Line)
			}
		}
	}
	walk(fd.Body, nil)
}

// receiverDecision prints which type decides the receiver copy in makeReceiver: the arguments of the
// translateImplicitConversionWithCloning call and the definitions of the identifiers used as its type argument.
func receiverDecision(fset *token.FileSet, file string, fd *ast.FuncDecl) {
	typeArgs := map[string]bool{}
	ast.Inspect(fd.Body, func(n ast.Node) bool {
		if c, ok := n.(*ast.CallExpr); ok {
			if s, ok := c.Fun.(*ast.SelectorExpr); ok && s.Sel.Name == "translateImplicitConversionWithCloning" && len(c.Args) == 2 {
				fmt.Printf("%s\t%s\treceiver-clone-by: %s\t%d\n", file, fd.Name.Name, src(fset, c.Args[1]), fset.Position(c.Pos()).Line)
				if id, ok := c.Args[1].(*ast.Ident); ok {
					typeArgs[id.Name] = true
				}
			}
		}
		return true
	})
	ast.Inspect(fd.Body, func(n ast.Node) bool {
		if a, ok := n.(*ast.AssignStmt); ok {
			for _, l := range a.Lhs {
				if id, ok := l.(*ast.Ident); ok && typeArgs[id.Name] {
					fmt.Printf("%s\t%s\treceiver-clone-type: %s\t%d\n", file, fd.Name.Name, src(fset, a), fset.Position(a.Pos()).Line)
				}
			}
		}
		return true
	})
}

// guardedCalls prints, for every call of one of the named methods inside fd, the chain of conditions (if / switch /
// type switch, through loops) under which it is reached: `what` = "arg-translation: <callee>(<args>) <= <conds>".
// For translateArgs this is the per-argument-form decision "clone or not".
func guardedCalls(fset *token.FileSet, file string, fd *ast.FuncDecl, names map[string]bool) {
	report := func(n ast.Node, conds []string) {
		ast.Inspect(n, func(m ast.Node) bool {
			switch m.(type) {
			case *ast.BlockStmt, *ast.FuncLit:
				return false
			}
			if c, ok := m.(*ast.CallExpr); ok {
				if sl, ok := c.Fun.(*ast.SelectorExpr); ok && names[sl.Sel.Name] {
					var as []string
					for _, a := range c.Args {
						as = append(as, src(fset, a))
					}
					fmt.Printf("%s\t%s\targ-translation: %s(%s) <= %s\t%d\n", file, fd.Name.Name, sl.Sel.Name, strings.Join(as, ", "), strings.Join(conds, " && "), fset.Position(c.Pos()).Line)
				}
			}
			return true
		})
	}
	var walk func(n ast.Stmt, conds []string)
	walkList := func(l []ast.Stmt, conds []string) {
		for _, st := range l {
			walk(st, conds)
		}
	}
	walk = func(n ast.Stmt, conds []string) {
		switch x := n.(type) {
		case nil:
		case *ast.BlockStmt:
			walkList(x.List, conds)
		case *ast.IfStmt:
			c := src(fset, x.Cond)
			if x.Init != nil {
				report(x.Init, conds)
				c = src(fset, x.Init) + "; " + c
			}
			report(x.Cond, conds)
			walk(x.Body, append(append([]string{}, conds...), c))
			if x.Else != nil {
				walk(x.Else, append(append([]string{}, conds...), "!("+c+")"))
			}
		case *ast.ForStmt:
			walk(x.Body, conds)
		case *ast.RangeStmt:
			walk(x.Body, conds)
		case *ast.SwitchStmt:
			for _, cc := range x.Body.List {
				cl := cc.(*ast.CaseClause)
				var ls []string
				for _, e := range cl.List {
					ls = append(ls, src(fset, e))
				}
				tag := ""
				if x.Tag != nil {
					tag = src(fset, x.Tag)
				}
				walkList(cl.Body, append(append([]string{}, conds...), "switch "+tag+" case "+strings.Join(ls, ",")))
			}
		case *ast.TypeSwitchStmt:
			for _, cc := range x.Body.List {
				cl := cc.(*ast.CaseClause)
				var ls []string
				for _, e := range cl.List {
					ls = append(ls, src(fset, e))
				}
				walkList(cl.Body, append(append([]string{}, conds...), "switch "+src(fset, x.Assign)+" case "+strings.Join(ls, ",")))
			}
		default:
			report(n, conds)
		}
	}
	walk(fd.Body, nil)
}
