// gvh_c07 — facts about /repo's compiler sources for the C07 check.
//
//	gvh_c07 sites <dir>   every place in the non-test Go files of <dir> that emits a value copy:
//	                      a string literal containing "$clone(" or ".copy(", or a call of
//	                      translateImplicitConversionWithCloning; one line `file<TAB>func<TAB>what<TAB>line`.
package main

import (
	"fmt"
	"go/ast"
	"go/parser"
	"go/token"
	"os"
	"path/filepath"
	"sort"
	"strings"
)

func main() {
	if len(os.Args) < 3 || os.Args[1] != "sites" {
		fmt.Fprintln(os.Stderr, "usage: gvh_c07 sites <dir>")
		os.Exit(2)
	}
	dir := os.Args[2]
	fset := token.NewFileSet()
	names, err := filepath.Glob(filepath.Join(dir, "*.go"))
	if err != nil {
		panic(err)
	}
	sort.Strings(names)
	for _, name := range names {
		if strings.HasSuffix(name, "_test.go") || strings.HasPrefix(filepath.Base(name), "verif_hooks") {
			continue
		}
		f, err := parser.ParseFile(fset, name, nil, 0)
		if err != nil {
			fmt.Fprintln(os.Stderr, err)
			os.Exit(1)
		}
		for _, d := range f.Decls {
			fd, ok := d.(*ast.FuncDecl)
			if !ok || fd.Body == nil {
				continue
			}
			ast.Inspect(fd.Body, func(n ast.Node) bool {
				switch x := n.(type) {
				case *ast.BasicLit:
					if x.Kind == token.STRING {
						for _, what := range []string{"$clone(", ".copy("} {
							if strings.Contains(x.Value, what) {
								fmt.Printf("%s\t%s\t%s\t%d\n", filepath.Base(name), fd.Name.Name, what, fset.Position(x.Pos()).Line)
							}
						}
					}
				case *ast.CallExpr:
					if s, ok := x.Fun.(*ast.SelectorExpr); ok && s.Sel.Name == "translateImplicitConversionWithCloning" {
						fmt.Printf("%s\t%s\t%s\t%d\n", filepath.Base(name), fd.Name.Name, s.Sel.Name, fset.Position(x.Pos()).Line)
					}
				}
				return true
			})
		}
	}
}
