// gvh_c04 — implementation side of property C04 (every used generic instantiation exists, is distinct and
// behaves correctly).
//
//	gvh_c04 run [-j N]    JSON jobs on stdin ({id, files, variants, native, timeout}), one JSON result per job on stdout.
//
// For every job the (multi-package) program is compiled with the real GopherJS pipeline; from the SAME build
//   - the per-package instance sets that typeparams.Collector produced (sources.Sources.TypeInfo.InstanceSets, reachable
//     without a hook) are exported in id order: every instance as  Object<nest types;type arguments>  with its id
//     re-queried through PackageInstanceSets.ID,
//   - the program is linked and run under Node (plain; minified from a second build),
//   - optionally built and run natively.
//
// Programs with more than one package are resolved in GOPATH mode (go/build's module mode runs `go list` in the process
// working directory): start with GOPATH=<scratch dir> GO111MODULE=off GOFLAGS=.
package main

import (
	"bytes"
	"encoding/json"
	"fmt"
	"go/types"
	"os"
	"os/exec"
	"path/filepath"
	"sort"
	"strings"
	"sync"
	"time"

	"github.com/gopherjs/gopherjs/build"
	"github.com/gopherjs/gopherjs/compiler"

	"gvh/internal/gojs"
)

type job struct {
	ID       string            `json:"id"`
	Mod      string            `json:"mod"`
	Files    map[string]string `json:"files"`
	Variants []string          `json:"variants"`
	Native   bool              `json:"native"`
	Timeout  float64           `json:"timeout"`
	KeepJS   bool              `json:"keep_js"`
}

type runOut struct {
	Stdout string `json:"stdout"`
	Stderr string `json:"stderr"`
	Class  string `json:"class"`
	Exit   int    `json:"exit"`
	Err    string `json:"err,omitempty"`
	JSLen  int    `json:"js_len,omitempty"`
	JS     string `json:"js,omitempty"`
}

type pkgSet struct {
	Pkg   string   `json:"pkg"`   // import path relative to the program's root ("" = main package)
	Insts []string `json:"insts"` // in id order
	IDs   []int    `json:"ids"`   // PackageInstanceSets.ID of each (must be 0,1,2,…)
	Dups  [][2]int `json:"dups"`  // pairs of positions holding the SAME instance (same object, types.Identical arguments)
}

type result struct {
	ID      string            `json:"id"`
	Err     string            `json:"err,omitempty"`
	Sets    []pkgSet          `json:"sets"`
	Runs    map[string]runOut `json:"runs"`
	Elapsed float64           `json:"elapsed"`
}

func clip(s string) string {
	if len(s) > 200000 {
		return s[:200000] + "...<clipped>"
	}
	return s
}

func sanitize(s string) string {
	return strings.Map(func(r rune) rune {
		if r >= 'a' && r <= 'z' || r >= 'A' && r <= 'Z' || r >= '0' && r <= '9' || r == '_' {
			return r
		}
		return '_'
	}, s)
}

func qual(p *types.Package) string { return p.Name() }

// canon prints a type so that identical types (types.Identical) print identically, however they were spelled in the
// source: byte/uint8, rune/int32, any/interface{}, aliases, parameter names of function types.
func canon(t types.Type) string {
	t = types.Unalias(t)
	switch t := t.(type) {
	case *types.Basic:
		switch t.Kind() {
		case types.Uint8:
			return "uint8"
		case types.Int32:
			return "int32"
		}
		return t.Name()
	case *types.Pointer:
		return "*" + canon(t.Elem())
	case *types.Slice:
		return "[]" + canon(t.Elem())
	case *types.Array:
		return fmt.Sprintf("[%d]%s", t.Len(), canon(t.Elem()))
	case *types.Chan:
		return "chan " + canon(t.Elem())
	case *types.Map:
		return "map[" + canon(t.Key()) + "]" + canon(t.Elem())
	case *types.Named:
		name := t.Obj().Name()
		if t.Obj().Pkg() != nil {
			name = t.Obj().Pkg().Name() + "." + name
		}
		if n := t.TypeArgs().Len(); n > 0 {
			parts := make([]string, n)
			for i := 0; i < n; i++ {
				parts[i] = canon(t.TypeArgs().At(i))
			}
			name += "[" + strings.Join(parts, ",") + "]"
		}
		return name
	case *types.Interface:
		if t.Empty() {
			return "any"
		}
	case *types.Signature:
		tuple := func(tp *types.Tuple) []string {
			parts := make([]string, tp.Len())
			for i := range parts {
				parts[i] = canon(tp.At(i).Type())
			}
			return parts
		}
		s := "func(" + strings.Join(tuple(t.Params()), ",") + ")"
		switch r := tuple(t.Results()); len(r) {
		case 0:
		case 1:
			s += " " + r[0]
		default:
			s += " (" + strings.Join(r, ",") + ")"
		}
		return s
	case *types.Struct:
		parts := make([]string, t.NumFields())
		for i := range parts {
			parts[i] = t.Field(i).Name() + " " + canon(t.Field(i).Type())
		}
		return "struct{" + strings.Join(parts, "; ") + "}"
	}
	return types.TypeString(t, qual)
}

func typeList(ts []types.Type) string {
	parts := make([]string, len(ts))
	for i, t := range ts {
		parts[i] = canon(t)
	}
	return strings.Join(parts, ",")
}

func identicalLists(a, b []types.Type) bool {
	if len(a) != len(b) {
		return false
	}
	for i := range a {
		if !types.Identical(a[i], b[i]) {
			return false
		}
	}
	return true
}

func objName(o types.Object) string {
	if f, ok := o.(*types.Func); ok {
		if sig, ok := f.Type().(*types.Signature); ok && sig.Recv() != nil {
			rt := sig.Recv().Type()
			if p, ok := rt.(*types.Pointer); ok {
				rt = p.Elem()
			}
			if n, ok := rt.(*types.Named); ok {
				return n.Obj().Name() + "." + f.Name()
			}
		}
	}
	return o.Name()
}

// compile builds the main package in dir; returns the linked JS and (when wantSets) the instance sets of the user packages.
func compile(dir, mod string, minify, wantSets bool) (js []byte, sets []pkgSet, err error) {
	gojs.Init()
	defer func() {
		if r := recover(); r != nil {
			err = fmt.Errorf("compiler panic: %v", r)
		}
	}()
	s, err := build.NewSession(&build.Options{Minify: minify, NoCache: true})
	if err != nil {
		return nil, nil, err
	}
	pkg, err := s.XContext().Import(".", dir, 0)
	if err != nil {
		return nil, nil, err
	}
	archive, err := s.BuildProject(pkg)
	if err != nil {
		return nil, nil, err
	}
	if wantSets {
		for _, srcs := range s.GetSortedSources() {
			if srcs.TypeInfo == nil || srcs.TypeInfo.InstanceSets == nil {
				continue
			}
			all := *srcs.TypeInfo.InstanceSets
			paths := make([]string, 0, len(all))
			for p := range all {
				paths = append(paths, p)
			}
			sort.Strings(paths)
			for _, p := range paths {
				if p != mod && !strings.HasPrefix(p, mod+"/") {
					continue
				}
				ps := pkgSet{Pkg: strings.TrimPrefix(strings.TrimPrefix(p, mod), "/")}
				vals := all[p].Values()
				for i, inst := range vals {
					ps.Insts = append(ps.Insts, objName(inst.Object)+"<"+typeList(inst.TNest)+";"+typeList(inst.TArgs)+">")
					ps.IDs = append(ps.IDs, all.ID(inst))
					for j := 0; j < i; j++ {
						if vals[j].Object == inst.Object && identicalLists(vals[j].TNest, inst.TNest) && identicalLists(vals[j].TArgs, inst.TArgs) {
							ps.Dups = append(ps.Dups, [2]int{j, i})
						}
					}
				}
				sets = append(sets, ps)
			}
			break // one shared PackageInstanceSets for the whole program
		}
	}
	deps, err := compiler.ImportDependencies(archive, s.ImportResolverFor(""))
	if err != nil {
		return nil, sets, err
	}
	var buf bytes.Buffer
	if err := compiler.WriteProgramCode(deps, compiler.DefaultFilter(&buf), s.GoRelease()); err != nil {
		return nil, sets, err
	}
	return buf.Bytes(), sets, nil
}

func buildNative(dir, out string) error {
	cmd := exec.Command("go", "build", "-o", out, ".")
	cmd.Dir = dir
	cmd.Env = append(os.Environ(), "GOFLAGS=", "GOPROXY=off", "GOSUMDB=off", "GOTOOLCHAIN=local", "CGO_ENABLED=0", "GOOS=", "GOARCH=",
		"GO111MODULE=off")
	b, err := cmd.CombinedOutput()
	if err != nil {
		return fmt.Errorf("native build: %v: %s", err, b)
	}
	return nil
}

func runJob(j job, scratch string) (res result) {
	t0 := time.Now()
	res = result{ID: j.ID, Runs: map[string]runOut{}}
	defer func() { res.Elapsed = time.Since(t0).Seconds() }()
	if j.Mod == "" {
		j.Mod = "gvq" + sanitize(j.ID)
	}
	dir := filepath.Join(scratch, "src", j.Mod)
	defer os.RemoveAll(dir)
	if err := gojs.WriteModule(dir, j.Mod, j.Files); err != nil {
		res.Err = "setup: " + err.Error()
		return
	}
	os.Remove(filepath.Join(dir, "go.mod")) // GOPATH mode
	to := time.Duration(j.Timeout * float64(time.Second))
	if to == 0 {
		to = 300 * time.Second
	}
	if len(j.Variants) == 0 {
		j.Variants = []string{"plain"}
	}
	for _, v := range j.Variants {
		js, sets, err := compile(dir, j.Mod, v == "minify", v == "plain")
		if v == "plain" {
			res.Sets = sets
		}
		if err != nil {
			res.Runs[v] = runOut{Err: err.Error(), Class: "compile-error"}
			continue
		}
		jsPath := filepath.Join(dir, "out_"+v+".js")
		if err := os.WriteFile(jsPath, js, 0o644); err != nil {
			res.Runs[v] = runOut{Err: err.Error()}
			continue
		}
		r := gojs.RunNode(jsPath, to)
		if r.TimedOut { // loaded machine: once more, alone-ish, with a longer limit
			r = gojs.RunNode(jsPath, 3*to)
		}
		ro := runOut{Stdout: clip(r.Stdout), Stderr: clip(r.Stderr), Class: r.Class(), Exit: r.Exit, JSLen: len(js)}
		if j.KeepJS {
			ro.JS = string(js)
		}
		res.Runs[v] = ro
	}
	if j.Native {
		bin := filepath.Join(dir, "native.bin")
		if err := buildNative(dir, bin); err != nil {
			res.Runs["native"] = runOut{Err: err.Error(), Class: "compile-error"}
		} else {
			r := gojs.RunNative(bin, to)
			res.Runs["native"] = runOut{Stdout: clip(r.Stdout), Stderr: clip(r.Stderr), Class: r.Class(), Exit: r.Exit}
		}
	}
	return
}

func main() {
	if len(os.Args) < 2 || os.Args[1] != "run" {
		fmt.Fprintln(os.Stderr, "usage: gvh_c04 run [-j N]")
		os.Exit(2)
	}
	par := 6
	args := os.Args[2:]
	for i := 0; i < len(args); i++ {
		if args[i] == "-j" && i+1 < len(args) {
			fmt.Sscanf(args[i+1], "%d", &par)
			i++
		}
	}
	scratch := os.Getenv("GOPATH")
	if scratch == "" || os.Getenv("GO111MODULE") != "off" || strings.Contains(scratch, string(os.PathListSeparator)) {
		fmt.Fprintln(os.Stderr, "gvh_c04: start with GOPATH=<scratch dir> GO111MODULE=off")
		os.Exit(2)
	}
	if err := os.MkdirAll(filepath.Join(scratch, "src"), 0o755); err != nil {
		fmt.Fprintln(os.Stderr, err)
		os.Exit(2)
	}
	dec := json.NewDecoder(os.Stdin)
	var jobs []job
	for dec.More() {
		var j job
		if err := dec.Decode(&j); err != nil {
			fmt.Fprintln(os.Stderr, "bad job:", err)
			os.Exit(2)
		}
		jobs = append(jobs, j)
	}
	results := make([]result, len(jobs))
	var wg sync.WaitGroup
	sem := make(chan struct{}, par)
	for i := range jobs {
		wg.Add(1)
		sem <- struct{}{}
		go func(i int) {
			defer wg.Done()
			defer func() { <-sem }()
			results[i] = runJob(jobs[i], scratch)
		}(i)
	}
	wg.Wait()
	enc := json.NewEncoder(os.Stdout)
	enc.SetEscapeHTML(false)
	for _, r := range results {
		enc.Encode(r)
	}
}
