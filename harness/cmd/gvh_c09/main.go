// gvh_c09 — implementation side of property C09 for MULTI-PACKAGE programs.
//
//	gvh_c09 prog [-j N]   JSON jobs on stdin ({id, mod, files, variants, native, timeout, keep_js}), one JSON result per job.
//	                      Programs are resolved in GOPATH mode: start the process with
//	                      GOPATH=<scratch dir> GO111MODULE=off GOFLAGS= ; the program lives in <scratch>/src/<mod>/…
//	                      Every job is compiled with the real GopherJS pipeline (in process, from VERIF_REPO's tree), run under
//	                      Node and natively, and — independently of the compiler — type-checked with go/types to report, for
//	                      every named type, named interface and interface literal of every package of the program, the
//	                      (method name, declaring package of an unexported method) pairs its run-time method table must carry.
package main

import (
	"bytes"
	"encoding/json"
	"fmt"
	"go/ast"
	"go/importer"
	"go/parser"
	"go/token"
	"go/types"
	"os"
	"os/exec"
	"path/filepath"
	"sort"
	"strings"
	"sync"
	"time"

	"github.com/gopherjs/gopherjs/build"
	"github.com/gopherjs/gopherjs/compiler"

	"gvh/internal/gojs"
)

type job struct {
	ID       string            `json:"id"`
	Mod      string            `json:"mod"`
	Files    map[string]string `json:"files"`
	Variants []string          `json:"variants"`
	Native   bool              `json:"native"`
	Timeout  float64           `json:"timeout"`
	KeepJS   bool              `json:"keep_js"`
}

type runOut struct {
	Stdout string `json:"stdout"`
	Stderr string `json:"stderr"`
	Class  string `json:"class"`
	Exit   int    `json:"exit"`
	Err    string `json:"err,omitempty"`
	JS     string `json:"js,omitempty"`
}

// method table entry: name and the qualifying package ("" for exported methods)
type entry [2]string

type pkgFacts struct {
	Path     string             `json:"path"`
	Name     string             `json:"name"`
	Value    map[string][]entry `json:"value"`    // named non-interface type -> value-receiver methods
	Pointer  map[string][]entry `json:"pointer"`  // named non-interface type -> pointer-receiver methods
	Ifaces   map[string][]entry `json:"ifaces"`   // named interface type -> complete method set
	Literals [][]entry          `json:"literals"` // interface literals (non-empty) occurring in the package
}

type result struct {
	ID      string            `json:"id"`
	Runs    map[string]runOut `json:"runs"`
	Facts   []pkgFacts        `json:"facts"`
	FactErr string            `json:"fact_err,omitempty"`
	Elapsed float64           `json:"elapsed"`
}

func clip(s string) string {
	if len(s) > 600000 {
		return s[:600000] + "...<clipped>"
	}
	return s
}

func sanitize(s string) string {
	return strings.Map(func(r rune) rune {
		if r >= 'a' && r <= 'z' || r >= 'A' && r <= 'Z' || r >= '0' && r <= '9' || r == '_' {
			return r
		}
		return '_'
	}, s)
}

func compile(dir string, minify bool) (js []byte, err error) {
	gojs.Init()
	defer func() {
		if r := recover(); r != nil {
			err = fmt.Errorf("compiler panic: %v", r)
		}
	}()
	s, err := build.NewSession(&build.Options{Minify: minify, NoCache: true})
	if err != nil {
		return nil, err
	}
	pkg, err := s.XContext().Import(".", dir, 0)
	if err != nil {
		return nil, err
	}
	archive, err := s.BuildProject(pkg)
	if err != nil {
		return nil, err
	}
	deps, err := compiler.ImportDependencies(archive, s.ImportResolverFor(""))
	if err != nil {
		return nil, err
	}
	var buf bytes.Buffer
	if err := compiler.WriteProgramCode(deps, compiler.DefaultFilter(&buf), s.GoRelease()); err != nil {
		return nil, err
	}
	return buf.Bytes(), nil
}

func buildNative(dir, out string) error {
	cmd := exec.Command("go", "build", "-o", out, ".")
	cmd.Dir = dir
	cmd.Env = append(os.Environ(), "GOFLAGS=", "GOPROXY=off", "GOSUMDB=off", "GOTOOLCHAIN=local", "CGO_ENABLED=0", "GOOS=", "GOARCH=",
		"GO111MODULE=off")
	b, err := cmd.CombinedOutput()
	if err != nil {
		return fmt.Errorf("native build: %v: %s", err, b)
	}
	return nil
}

func qual(m *types.Func) string {
	if m.Exported() {
		return ""
	}
	return m.Pkg().Path()
}

func ifaceEntries(t *types.Interface) []entry {
	var out []entry
	for i := 0; i < t.NumMethods(); i++ {
		m := t.Method(i)
		out = append(out, entry{m.Name(), qual(m)})
	}
	sort.Slice(out, func(i, j int) bool { return out[i][0]+"\x00"+out[i][1] < out[j][0]+"\x00"+out[j][1] })
	return out
}

// typeFacts type-checks every package of the program with go/types (source importer, GOPATH mode), independently of GopherJS.
func typeFacts(root, mod string, files map[string]string) ([]pkgFacts, error) {
	dirs := map[string][]string{}
	for name := range files {
		if strings.HasSuffix(name, ".go") {
			d := filepath.Dir(name)
			dirs[d] = append(dirs[d], name)
		}
	}
	var keys []string
	for d := range dirs {
		keys = append(keys, d)
	}
	sort.Strings(keys)
	var out []pkgFacts
	for _, d := range keys {
		fset := token.NewFileSet()
		var parsed []*ast.File
		sort.Strings(dirs[d])
		for _, f := range dirs[d] {
			af, err := parser.ParseFile(fset, filepath.Join(root, f), nil, 0)
			if err != nil {
				return nil, err
			}
			parsed = append(parsed, af)
		}
		path := mod
		if d != "." {
			path = mod + "/" + filepath.ToSlash(d)
		}
		info := &types.Info{Types: map[ast.Expr]types.TypeAndValue{}}
		conf := types.Config{Importer: importer.ForCompiler(fset, "source", nil)}
		pkg, err := conf.Check(path, fset, parsed, info)
		if err != nil {
			return nil, err
		}
		pf := pkgFacts{Path: path, Name: pkg.Name(), Value: map[string][]entry{}, Pointer: map[string][]entry{}, Ifaces: map[string][]entry{}}
		// all named types, also those declared inside functions
		var named []*types.Named
		seen := map[*types.Named]bool{}
		var walk func(s *types.Scope)
		walk = func(s *types.Scope) {
			for _, n := range s.Names() {
				if tn, ok := s.Lookup(n).(*types.TypeName); ok && !tn.IsAlias() {
					if nt, ok := tn.Type().(*types.Named); ok && !seen[nt] {
						seen[nt] = true
						named = append(named, nt)
					}
				}
			}
			for i := 0; i < s.NumChildren(); i++ {
				walk(s.Child(i))
			}
		}
		walk(pkg.Scope())
		for _, nt := range named {
			name := nt.Obj().Name()
			if it, ok := nt.Underlying().(*types.Interface); ok {
				pf.Ifaces[name] = append(pf.Ifaces[name], ifaceEntries(it)...)
				continue
			}
			for i := 0; i < nt.NumMethods(); i++ {
				m := nt.Method(i)
				e := entry{m.Name(), qual(m)}
				if _, isPtr := m.Type().(*types.Signature).Recv().Type().(*types.Pointer); isPtr {
					pf.Pointer[name] = append(pf.Pointer[name], e)
				} else {
					pf.Value[name] = append(pf.Value[name], e)
				}
			}
		}
		lits := map[string][]entry{}
		for _, tv := range info.Types {
			var visit func(t types.Type, depth int)
			visit = func(t types.Type, depth int) {
				if depth > 6 {
					return
				}
				switch u := t.(type) {
				case *types.Interface:
					if u.NumMethods() > 0 {
						es := ifaceEntries(u)
						b, _ := json.Marshal(es)
						lits[string(b)] = es
					}
				case *types.Pointer:
					visit(u.Elem(), depth+1)
				case *types.Slice:
					visit(u.Elem(), depth+1)
				case *types.Array:
					visit(u.Elem(), depth+1)
				case *types.Chan:
					visit(u.Elem(), depth+1)
				case *types.Map:
					visit(u.Key(), depth+1)
					visit(u.Elem(), depth+1)
				case *types.Signature:
					for i := 0; i < u.Params().Len(); i++ {
						visit(u.Params().At(i).Type(), depth+1)
					}
					for i := 0; i < u.Results().Len(); i++ {
						visit(u.Results().At(i).Type(), depth+1)
					}
				case *types.Struct:
					for i := 0; i < u.NumFields(); i++ {
						visit(u.Field(i).Type(), depth+1)
					}
				case *types.Tuple:
					for i := 0; i < u.Len(); i++ {
						visit(u.At(i).Type(), depth+1)
					}
				}
			}
			if tv.Type != nil {
				visit(tv.Type, 0)
			}
		}
		var lk []string
		for k := range lits {
			lk = append(lk, k)
		}
		sort.Strings(lk)
		for _, k := range lk {
			pf.Literals = append(pf.Literals, lits[k])
		}
		out = append(out, pf)
	}
	return out, nil
}

func runJob(j job, scratch string) (res result) {
	t0 := time.Now()
	res = result{ID: j.ID, Runs: map[string]runOut{}}
	defer func() { res.Elapsed = time.Since(t0).Seconds() }()
	if j.Mod == "" {
		j.Mod = "gvq" + sanitize(j.ID)
	}
	dir := filepath.Join(scratch, "src", j.Mod)
	defer os.RemoveAll(dir)
	files := map[string]string{}
	for k, v := range j.Files {
		files[k] = v
	}
	files["go.mod"] = "" // placeholder so WriteModule writes none of its own; removed below
	if err := gojs.WriteModule(dir, j.Mod, files); err != nil {
		res.Runs["setup"] = runOut{Err: err.Error()}
		return
	}
	os.Remove(filepath.Join(dir, "go.mod"))
	to := time.Duration(j.Timeout * float64(time.Second))
	if to == 0 {
		to = 300 * time.Second
	}
	if len(j.Variants) == 0 {
		j.Variants = []string{"plain"}
	}
	if facts, err := typeFacts(dir, j.Mod, j.Files); err != nil {
		res.FactErr = err.Error()
	} else {
		res.Facts = facts
	}
	for _, v := range j.Variants {
		js, err := compile(dir, v == "minify")
		if err != nil {
			res.Runs[v] = runOut{Err: err.Error(), Class: "compile-error"}
			continue
		}
		jsPath := filepath.Join(dir, "out_"+sanitize(v)+".js")
		if err := os.WriteFile(jsPath, js, 0o644); err != nil {
			res.Runs[v] = runOut{Err: err.Error()}
			continue
		}
		r := gojs.RunNode(jsPath, to)
		if r.TimedOut {
			r = gojs.RunNode(jsPath, 3*to)
		}
		os.Remove(jsPath)
		ro := runOut{Stdout: clip(r.Stdout), Stderr: clip(r.Stderr), Class: r.Class(), Exit: r.Exit}
		if j.KeepJS {
			ro.JS = string(js)
		}
		res.Runs[v] = ro
	}
	if j.Native {
		bin := filepath.Join(dir, "native.bin")
		if err := buildNative(dir, bin); err != nil {
			res.Runs["native"] = runOut{Err: err.Error(), Class: "compile-error"}
		} else {
			r := gojs.RunNative(bin, to)
			res.Runs["native"] = runOut{Stdout: clip(r.Stdout), Stderr: clip(r.Stderr), Class: r.Class(), Exit: r.Exit}
		}
	}
	return
}

func main() {
	if len(os.Args) < 2 || os.Args[1] != "prog" {
		fmt.Fprintln(os.Stderr, "usage: gvh_c09 prog [-j N]")
		os.Exit(2)
	}
	args := os.Args[2:]
	par := 6
	for i := 0; i < len(args); i++ {
		if args[i] == "-j" && i+1 < len(args) {
			fmt.Sscanf(args[i+1], "%d", &par)
			i++
		}
	}
	scratch := os.Getenv("GOPATH")
	if scratch == "" || os.Getenv("GO111MODULE") != "off" || strings.Contains(scratch, string(os.PathListSeparator)) {
		fmt.Fprintln(os.Stderr, "gvh_c09 prog: start with GOPATH=<scratch dir> GO111MODULE=off")
		os.Exit(2)
	}
	if err := os.MkdirAll(filepath.Join(scratch, "src"), 0o755); err != nil {
		fmt.Fprintln(os.Stderr, err)
		os.Exit(2)
	}
	dec := json.NewDecoder(os.Stdin)
	var jobs []job
	for dec.More() {
		var j job
		if err := dec.Decode(&j); err != nil {
			fmt.Fprintln(os.Stderr, "bad job:", err)
			os.Exit(2)
		}
		jobs = append(jobs, j)
	}
	results := make([]result, len(jobs))
	var wg sync.WaitGroup
	sem := make(chan struct{}, par)
	for i := range jobs {
		wg.Add(1)
		sem <- struct{}{}
		go func(i int) {
			defer wg.Done()
			defer func() { <-sem }()
			results[i] = runJob(jobs[i], scratch)
		}(i)
	}
	wg.Wait()
	enc := json.NewEncoder(os.Stdout)
	for _, r := range results {
		enc.Encode(r)
	}
}
