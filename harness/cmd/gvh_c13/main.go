// gvh_c13 — implementation side of the C13 ties that do not go through compiled programs:
//
//	caseranges   dump unicode.CaseRanges / unicode.TurkishCase of the GOROOT the compiler reads (JSON)
//	decls        compile a program importing sync/atomic + nosync with the real GopherJS pipeline (in process,
//	             from the repo working tree) and print FullName/Blocking of every declaration of those packages
//	nosync       run operation histories against the REAL github.com/gopherjs/gopherjs/nosync natively
//	sync         run the same histories against the real package sync (child processes; blocking is detected
//	             from the goroutine's wait reason, fatal errors from the death of the child)
//
// History line:  op;op;…   with ops
//
//	m.L m.U | rw.L rw.U rw.RL rw.RU | wg.A:<d> wg.D wg.W | o.D:ok o.D:panic o.D:nest
//	mp.Ld:<k> mp.St:<k>:<v> mp.LS:<k>:<v> mp.Del:<k> mp.Rg:<n>  (n<0: whole range, else f returns false at call n)
//	p.Put:<x> p.Get:<n> (0 = New is nil, else New returns -n)
//	keys and values are codes: 0 = nil interface, 1 = (*int)(nil), 2 = int(0), 3 = "", other n = int n
//
// Answer line: outcomes joined by ';' : ok | ok:<value> | panic | block | fatal  (block/fatal end a sync history)
package main

import (
	"bufio"
	"encoding/json"
	"fmt"
	"io"
	"os"
	"os/exec"
	"path/filepath"
	"runtime"
	"sort"
	"strconv"
	"strings"
	"sync"
	"time"
	"unicode"

	"github.com/gopherjs/gopherjs/nosync"

	"gvh/internal/gojs"
)

func main() {
	if len(os.Args) < 2 {
		fmt.Fprintln(os.Stderr, "usage: gvh_c13 caseranges|decls|nosync|sync|sync-child")
		os.Exit(2)
	}
	switch os.Args[1] {
	case "caseranges":
		caseRanges()
	case "decls":
		decls()
	case "nosync":
		lines(func(h string) string { return strings.Join(runNoSync(strings.Split(h, ";")), ";") })
	case "sync":
		syncParent()
	case "sync-child":
		syncChild()
	default:
		fmt.Fprintln(os.Stderr, "unknown command")
		os.Exit(2)
	}
}

func lines(f func(string) string) {
	sc := bufio.NewScanner(os.Stdin)
	sc.Buffer(make([]byte, 1<<20), 1<<26)
	w := bufio.NewWriter(os.Stdout)
	defer w.Flush()
	for sc.Scan() {
		fmt.Fprintln(w, f(sc.Text()))
	}
}

// ---------------------------------------------------------------------------------------------

type crange struct {
	Lo, Hi     uint32
	D0, D1, D2 int32
}

func dump(t []unicode.CaseRange) []crange {
	var out []crange
	for _, c := range t {
		out = append(out, crange{c.Lo, c.Hi, int32(c.Delta[0]), int32(c.Delta[1]), int32(c.Delta[2])})
	}
	return out
}

func caseRanges() {
	json.NewEncoder(os.Stdout).Encode(map[string]any{
		"CaseRanges": dump(unicode.CaseRanges), "TurkishCase": dump(unicode.TurkishCase),
		"MaxRune": unicode.MaxRune, "UpperLower": unicode.UpperLower, "MaxCase": unicode.MaxCase,
		"ReplacementChar": unicode.ReplacementChar, "goroot": runtime.GOROOT(), "version": runtime.Version(),
	})
}

// ---------------------------------------------------------------------------------------------

const declProg = `package main

import (
	"sync/atomic"

	"github.com/gopherjs/gopherjs/nosync"
)

var (
	i32 int32
	i64 int64
	u32 uint32
	u64 uint64
	up  uintptr
	v   atomic.Value
	p   atomic.Pointer[int]
	ti  atomic.Int32
	tu  atomic.Uint64
	tb  atomic.Bool
	m   nosync.Mutex
	rw  nosync.RWMutex
	wg  nosync.WaitGroup
	o   nosync.Once
	mp  nosync.Map
	pl  nosync.Pool
)

func main() {
	atomic.AddInt32(&i32, 1); atomic.AddInt64(&i64, 1); atomic.AddUint32(&u32, 1); atomic.AddUint64(&u64, 1); atomic.AddUintptr(&up, 1)
	atomic.SwapInt32(&i32, 1); atomic.SwapInt64(&i64, 1); atomic.SwapUint32(&u32, 1); atomic.SwapUint64(&u64, 1); atomic.SwapUintptr(&up, 1)
	atomic.CompareAndSwapInt32(&i32, 1, 2); atomic.CompareAndSwapInt64(&i64, 1, 2); atomic.CompareAndSwapUint32(&u32, 1, 2)
	atomic.CompareAndSwapUint64(&u64, 1, 2); atomic.CompareAndSwapUintptr(&up, 1, 2)
	atomic.StoreInt32(&i32, 1); atomic.StoreInt64(&i64, 1); atomic.StoreUint32(&u32, 1); atomic.StoreUint64(&u64, 1); atomic.StoreUintptr(&up, 1)
	println(atomic.LoadInt32(&i32), atomic.LoadInt64(&i64) == 1, atomic.LoadUint32(&u32), atomic.LoadUint64(&u64) == 1, atomic.LoadUintptr(&up))
	v.Store(1); v.Swap(2); v.CompareAndSwap(2, 3); println(v.Load().(int))
	x := 1
	p.Store(&x); p.Swap(&x); p.CompareAndSwap(&x, &x); println(*p.Load())
	ti.Add(1); ti.Store(2); ti.Swap(3); ti.CompareAndSwap(3, 4); println(ti.Load())
	tu.Add(1); tb.Store(true); println(tu.Load() == 1, tb.Load())
	m.Lock(); m.Unlock(); rw.Lock(); rw.Unlock(); rw.RLock(); rw.RUnlock(); wg.Add(1); wg.Done(); wg.Wait()
	o.Do(func() {}); mp.Store(1, 2); mp.Load(1); mp.LoadOrStore(1, 2); mp.Delete(1); mp.Range(func(k, v any) bool { return true })
	pl.Put(1); pl.Get()
}
`

func decls() {
	dir, err := os.MkdirTemp(os.Getenv("VERIF_SCRATCH"), "gvc13-")
	if err != nil {
		panic(err)
	}
	defer os.RemoveAll(dir)
	if err := gojs.WriteModule(dir, "gvprog", map[string]string{"main.go": declProg}); err != nil {
		panic(err)
	}
	res := gojs.Compile(dir, gojs.Options{})
	if res.Err != nil {
		fmt.Fprintln(os.Stderr, "compile:", res.Err)
		os.Exit(1)
	}
	type d struct {
		Pkg      string `json:"pkg"`
		Name     string `json:"name"`
		Blocking bool   `json:"blocking"`
		Func     bool   `json:"func"`
	}
	var out []d
	for _, a := range res.Archives {
		if a.ImportPath != "sync/atomic" && a.ImportPath != "github.com/gopherjs/gopherjs/nosync" && a.ImportPath != "math/bits" && a.ImportPath != "unicode" {
			continue
		}
		for _, dc := range a.Declarations {
			out = append(out, d{a.ImportPath, dc.FullName, dc.Blocking, len(dc.FuncDeclCode) > 0})
		}
	}
	sort.Slice(out, func(i, j int) bool { return out[i].Pkg+out[i].Name < out[j].Pkg+out[j].Name })
	// also run it: the program must work
	js := filepath.Join(dir, "out.js")
	os.WriteFile(js, res.JS, 0o644)
	r := gojs.RunNode(js, 300*time.Second)
	json.NewEncoder(os.Stdout).Encode(map[string]any{"decls": out, "stdout": r.Stdout, "exit": r.Exit, "stderr": r.Stderr})
}

// ---------------------------------------------------------------------------------------------
// histories

func atoi(s string) int {
	n, err := strconv.Atoi(s)
	if err != nil {
		panic("bad int " + s)
	}
	return n
}

type sentinel struct{}

func renderPairs(ps [][2]int) string {
	sort.Slice(ps, func(i, j int) bool { return ps[i][0] < ps[j][0] })
	var sb []string
	for _, p := range ps {
		sb = append(sb, fmt.Sprintf("%d=%d", p[0], p[1]))
	}
	if len(sb) == 0 {
		return "-"
	}
	return strings.Join(sb, ",")
}

// Value / key codes of the history language: 0 = nil interface, 1 = typed nil pointer (*int)(nil), 2 = int zero value,
// 3 = empty string (zero value), any other n = int n.
var nilPtr *int

func decode(c int) any {
	switch c {
	case 0:
		return nil
	case 1:
		return nilPtr
	case 2:
		return int(0)
	case 3:
		return ""
	}
	return c
}

func codeInt(x any) int {
	switch v := x.(type) {
	case nil:
		return 0
	case *int:
		if v == nil {
			return 1
		}
		return -999
	case string:
		if v == "" {
			return 3
		}
		return -998
	case int:
		if v == 0 {
			return 2
		}
		return v
	}
	return -997
}

func codeOf(x any) string {
	if x == nil {
		return "nil"
	}
	return strconv.Itoa(codeInt(x))
}

func val(x any, ok bool) string {
	return fmt.Sprintf("%s,%v", codeOf(x), ok)
}

// the six objects, behind one interface so that nosync and sync run the same interpreter
type objs struct {
	mL, mU, rwL, rwU, rwRL, rwRU func()
	wgA                          func(int)
	wgW                          func()
	oD                           func(func())
	mpLd                         func(any) (any, bool)
	mpSt                         func(any, any)
	mpLS                         func(any, any) (any, bool)
	mpDel                        func(any)
	mpRg                         func(func(k, v any) bool)
	pPut                         func(any)
	pGet                         func(newf func() any) any
}

func newNoSync() *objs {
	var m nosync.Mutex
	var rw nosync.RWMutex
	var wg nosync.WaitGroup
	var o nosync.Once
	var mp nosync.Map
	var p nosync.Pool
	return &objs{m.Lock, m.Unlock, rw.Lock, rw.Unlock, rw.RLock, rw.RUnlock, wg.Add, wg.Wait, o.Do,
		mp.Load, mp.Store, mp.LoadOrStore, mp.Delete, mp.Range, p.Put,
		func(nf func() any) any { p.New = nf; return p.Get() }}
}

func newSync() *objs {
	var m sync.Mutex
	var rw sync.RWMutex
	var wg sync.WaitGroup
	var o sync.Once
	var mp sync.Map
	var p sync.Pool
	return &objs{m.Lock, m.Unlock, rw.Lock, rw.Unlock, rw.RLock, rw.RUnlock, wg.Add, wg.Wait, o.Do,
		mp.Load, mp.Store, mp.LoadOrStore, mp.Delete, mp.Range, p.Put,
		func(nf func() any) any { p.New = nf; return p.Get() }}
}

// exec1 runs one operation and returns its outcome (ok…); panics propagate.
func exec1(o *objs, op string) string {
	f := strings.Split(op, ":")
	switch f[0] {
	case "m.L":
		o.mL()
	case "m.U":
		o.mU()
	case "rw.L":
		o.rwL()
	case "rw.U":
		o.rwU()
	case "rw.RL":
		o.rwRL()
	case "rw.RU":
		o.rwRU()
	case "wg.A":
		o.wgA(atoi(f[1]))
	case "wg.D":
		o.wgA(-1)
	case "wg.W":
		o.wgW()
	case "o.D":
		ran := 0
		switch f[1] {
		case "ok":
			o.oD(func() { ran++ })
		case "panic":
			o.oD(func() { ran++; panic(sentinel{}) })
		case "nest":
			o.oD(func() { ran++; o.oD(func() { ran += 10 }) })
		}
		return fmt.Sprintf("ok:%d", ran)
	case "mp.Ld":
		return "ok:" + val(o.mpLd(decode(atoi(f[1]))))
	case "mp.St":
		o.mpSt(decode(atoi(f[1])), decode(atoi(f[2])))
	case "mp.LS":
		return "ok:" + val(o.mpLS(decode(atoi(f[1])), decode(atoi(f[2]))))
	case "mp.Del":
		o.mpDel(decode(atoi(f[1])))
	case "mp.Rg":
		n := atoi(f[1])
		var ps [][2]int
		calls := 0
		o.mpRg(func(k, v any) bool {
			calls++
			ps = append(ps, [2]int{codeInt(k), codeInt(v)})
			return n < 0 || calls < n
		})
		if n < 0 {
			return "ok:" + renderPairs(ps)
		}
		return fmt.Sprintf("ok:calls=%d", calls)
	case "p.Put":
		o.pPut(decode(atoi(f[1])))
	case "p.Get":
		var nf func() any
		if n := atoi(f[1]); n != 0 {
			nf = func() any { return -n }
		}
		x := o.pGet(nf)
		return "ok:" + codeOf(x)
	default:
		panic("bad op " + op)
	}
	return "ok"
}

// ranOnce reports for o.D whether f ran although Do panicked (observed through the panic path)
func execRecover(o *objs, op string) (out string) {
	defer func() {
		if r := recover(); r != nil {
			if s, ok := r.(string); ok && strings.HasPrefix(s, "bad ") {
				panic(r)
			}
			out = "panic"
		}
	}()
	return exec1(o, op)
}

func runNoSync(ops []string) []string {
	o := newNoSync()
	var out []string
	for _, op := range ops {
		out = append(out, execRecover(o, op))
	}
	return out
}

// ---------------------------------------------------------------------------------------------
// real sync: one child process runs histories; every operation is executed by a worker goroutine whose
// wait reason is inspected while the answer is outstanding.

func goid() string {
	b := make([]byte, 64)
	b = b[:runtime.Stack(b, false)]
	return strings.Fields(string(b))[1]
}

func blockedStatus(id string) bool {
	buf := make([]byte, 1<<20)
	for {
		n := runtime.Stack(buf, true)
		if n < len(buf) {
			buf = buf[:n]
			break
		}
		buf = make([]byte, 2*len(buf))
	}
	hdr := "goroutine " + id + " ["
	i := strings.Index(string(buf), hdr)
	if i < 0 {
		return false
	}
	rest := string(buf[i+len(hdr):])
	j := strings.IndexAny(rest, "],")
	if j < 0 {
		return false
	}
	st := rest[:j]
	return strings.HasPrefix(st, "sync.") || strings.HasPrefix(st, "semacquire")
}

func syncChild() {
	in := bufio.NewScanner(os.Stdin)
	in.Buffer(make([]byte, 1<<20), 1<<26)
	w := bufio.NewWriter(os.Stdout)
	for in.Scan() {
		ops := strings.Split(in.Text(), ";")
		o := newSync()
		res := make(chan string)
		idc := make(chan string, 1)
		req := make(chan string)
		go func() {
			idc <- goid()
			for op := range req {
				res <- execRecover(o, op)
			}
		}()
		id := <-idc
		for _, op := range ops {
			fmt.Fprintln(w, "op "+op) // announced before it runs: a fatal error kills the process
			w.Flush()
			req <- op
			var out string
			deadline := time.Now().Add(240 * time.Second)
			blockedSeen := 0
			wait := 250 * time.Microsecond
		wait:
			for {
				select {
				case out = <-res:
					break wait
				case <-time.After(wait):
					if wait < 4*time.Millisecond {
						wait *= 2
					}
					if blockedStatus(id) {
						blockedSeen++
						if blockedSeen >= 2 {
							out = "block"
							break wait
						}
					} else {
						blockedSeen = 0
					}
					if time.Now().After(deadline) {
						out = "timeout"
						break wait
					}
				}
			}
			fmt.Fprintln(w, "out "+out)
			w.Flush()
			if out == "block" || out == "timeout" {
				break // the worker goroutine stays blocked forever (leaked on purpose)
			}
		}
		fmt.Fprintln(w, "end")
		w.Flush()
	}
}

type child struct {
	cmd *exec.Cmd
	in  io.WriteCloser
	out *bufio.Scanner
	err *strings.Builder
	n   int
}

func startChild() *child {
	c := &child{cmd: exec.Command(os.Args[0], "sync-child"), err: &strings.Builder{}}
	c.in, _ = c.cmd.StdinPipe()
	so, _ := c.cmd.StdoutPipe()
	c.cmd.Stderr = c.err
	c.out = bufio.NewScanner(so)
	c.out.Buffer(make([]byte, 1<<20), 1<<26)
	if err := c.cmd.Start(); err != nil {
		panic(err)
	}
	return c
}

func (c *child) stop() {
	c.in.Close()
	c.cmd.Process.Kill()
	c.cmd.Wait()
}

func syncParent() {
	var c *child
	lines(func(h string) string {
		if c == nil || c.n >= 150 {
			if c != nil {
				c.stop()
			}
			c = startChild()
		}
		c.n++
		fmt.Fprintln(c.in, h)
		var outs []string
		pending := false
		for c.out.Scan() {
			l := c.out.Text()
			switch {
			case strings.HasPrefix(l, "op "):
				pending = true
			case strings.HasPrefix(l, "out "):
				outs = append(outs, l[4:])
				pending = false
			case l == "end":
				return strings.Join(outs, ";")
			}
		}
		// the child died
		c.cmd.Wait()
		se := c.err.String()
		c = nil
		if pending && strings.Contains(se, "fatal error: sync:") {
			outs = append(outs, "fatal")
			return strings.Join(outs, ";")
		}
		return "child-died:" + strings.ReplaceAll(clip(se), "\n", " ")
	})
	if c != nil {
		c.stop()
	}
}

func clip(s string) string {
	if len(s) > 300 {
		return s[:300]
	}
	return s
}
