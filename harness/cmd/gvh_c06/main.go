// gvh_c06 — extracts, from the CURRENT source of compiler/expressions.go, the table that GV.Model.NumScheme transcribes:
// for every operator case of the numeric branches of translateExpr (binary: 64-bit, complex, JS-number types; unary),
// of the numeric conversions and of fixNumber, the flattened list of (guard path, emitted expression) records.
// One JSON object per line on stdout:  {"sec": ..., "case": ..., "guard": ..., "text": ...}
//
// The flattening is purely syntactic (go/ast): every `return` under a case clause becomes a record whose guard is the
// conjunction of the enclosing if-conditions / inner switch cases (negated for fall-through after a terminating branch)
// and whose text is the printed return expression; every other statement (assignments that select an operator string,
// fresh-variable allocations) becomes a "stmt:" record. Any new path, edited format string, changed condition or changed
// case list therefore changes the table.
package main

import (
	"bytes"
	"encoding/json"
	"fmt"
	"go/ast"
	"go/parser"
	"go/printer"
	"go/token"
	"os"
	"path/filepath"
	"strings"
)

func repo() string {
	if r := os.Getenv("VERIF_REPO"); r != "" {
		return r
	}
	return "/repo"
}

type rec struct {
	Sec   string `json:"sec"`
	Case  string `json:"case"`
	Guard string `json:"guard"`
	Text  string `json:"text"`
}

var fset = token.NewFileSet()
var out []rec

func src(n ast.Node) string {
	var b bytes.Buffer
	printer.Fprint(&b, fset, n)
	return strings.Join(strings.Fields(b.String()), " ")
}

func exprList(l []ast.Expr) string {
	if l == nil {
		return "default"
	}
	s := make([]string, len(l))
	for i, e := range l {
		s[i] = src(e)
	}
	return strings.Join(s, ", ")
}

func terminates(stmts []ast.Stmt) bool {
	if len(stmts) == 0 {
		return false
	}
	switch s := stmts[len(stmts)-1].(type) {
	case *ast.ReturnStmt:
		return true
	case *ast.ExprStmt:
		if c, ok := s.X.(*ast.CallExpr); ok {
			if id, ok := c.Fun.(*ast.Ident); ok && id.Name == "panic" {
				return true
			}
		}
	case *ast.BlockStmt:
		return terminates(s.List)
	case *ast.IfStmt:
		if s.Else == nil {
			return false
		}
		eb, ok := s.Else.(*ast.BlockStmt)
		return terminates(s.Body.List) && ok && terminates(eb.List)
	case *ast.SwitchStmt:
		hasDefault := false
		for _, c := range s.Body.List {
			cc := c.(*ast.CaseClause)
			if cc.List == nil {
				hasDefault = true
			}
			if !terminates(cc.Body) {
				return false
			}
		}
		return hasDefault
	}
	return false
}

// flatten the statements of one operator case into records
func flatten(sec, cas string, stmts []ast.Stmt, guards []string) {
	g := append([]string{}, guards...)
	emit := func(text string) {
		out = append(out, rec{Sec: sec, Case: cas, Guard: strings.Join(g, " && "), Text: text})
	}
	for _, st := range stmts {
		switch s := st.(type) {
		case *ast.ReturnStmt:
			emit("return " + exprList(s.Results))
		case *ast.BlockStmt:
			flatten(sec, cas, s.List, g)
		case *ast.IfStmt:
			cond := src(s.Cond)
			if s.Init != nil {
				cond = src(s.Init) + "; " + cond
			}
			flatten(sec, cas, s.Body.List, append(append([]string{}, g...), cond))
			if s.Else != nil {
				switch e := s.Else.(type) {
				case *ast.BlockStmt:
					flatten(sec, cas, e.List, append(append([]string{}, g...), "!("+cond+")"))
				default:
					flatten(sec, cas, []ast.Stmt{e}, append(append([]string{}, g...), "!("+cond+")"))
				}
			} else if terminates(s.Body.List) {
				g = append(g, "!("+cond+")")
			}
		case *ast.SwitchStmt:
			tag := "true"
			if s.Tag != nil {
				tag = src(s.Tag)
			}
			if s.Init != nil {
				tag = src(s.Init) + "; " + tag
			}
			var done []string
			for _, c := range s.Body.List {
				cc := c.(*ast.CaseClause)
				lbl := "(" + tag + ") in {" + exprList(cc.List) + "}"
				flatten(sec, cas, cc.Body, append(append([]string{}, g...), lbl))
				if terminates(cc.Body) {
					done = append(done, exprList(cc.List))
				} else {
					done = append(done, exprList(cc.List)+" [falls out]")
				}
			}
			g = append(g, "after switch ("+tag+") {"+strings.Join(done, " | ")+"}")
		default:
			emit("stmt: " + src(st))
		}
	}
}

func opSwitch(sec string, sw *ast.SwitchStmt, guards []string) {
	for _, c := range sw.Body.List {
		cc := c.(*ast.CaseClause)
		flatten(sec, exprList(cc.List), cc.Body, guards)
	}
}

func findFunc(f *ast.File, name string) *ast.FuncDecl {
	for _, d := range f.Decls {
		if fd, ok := d.(*ast.FuncDecl); ok && fd.Name.Name == name {
			return fd
		}
	}
	return nil
}

// the clause of a type switch whose single case type prints as typ
func typeClause(body *ast.BlockStmt, typ string) *ast.CaseClause {
	var res *ast.CaseClause
	ast.Inspect(body, func(n ast.Node) bool {
		if res != nil {
			return false
		}
		if ts, ok := n.(*ast.TypeSwitchStmt); ok {
			for _, c := range ts.Body.List {
				cc := c.(*ast.CaseClause)
				if len(cc.List) == 1 && src(cc.List[0]) == typ {
					res = cc
					return false
				}
			}
		}
		return true
	})
	return res
}

func isOpSwitch(s ast.Stmt) *ast.SwitchStmt {
	if sw, ok := s.(*ast.SwitchStmt); ok && sw.Tag != nil && src(sw.Tag) == "e.Op" {
		return sw
	}
	return nil
}

func fail(msg string) {
	// a structure the extractor does not recognise is itself a change of the table
	out = append(out, rec{Sec: "extractor", Case: "-", Guard: "-", Text: "UNRECOGNISED: " + msg})
}

func main() {
	if len(os.Args) < 2 || os.Args[1] != "optable" {
		fmt.Fprintln(os.Stderr, "usage: gvh_c06 optable")
		os.Exit(2)
	}
	path := filepath.Join(repo(), "compiler", "expressions.go")
	f, err := parser.ParseFile(fset, path, nil, 0)
	if err != nil {
		fmt.Fprintln(os.Stderr, err)
		os.Exit(1)
	}
	te := findFunc(f, "translateExpr")
	if te == nil {
		fail("func translateExpr not found")
	} else {
		// unary operators
		if uc := typeClause(te.Body, "*ast.UnaryExpr"); uc == nil {
			fail("case *ast.UnaryExpr not found")
		} else {
			found := false
			for _, st := range uc.Body {
				if sw := isOpSwitch(st); sw != nil {
					// only the last e.Op switch of the clause works on basic types (the first handles & and <-)
					found = true
					out = filterSec(out, "un")
					opSwitch("un", sw, nil)
				}
			}
			if !found {
				fail("unary e.Op switch not found")
			}
		}
		// binary operators
		if bc := typeClause(te.Body, "*ast.BinaryExpr"); bc == nil {
			fail("case *ast.BinaryExpr not found")
		} else {
			n := 0
			for _, st := range bc.Body {
				ifs, ok := st.(*ast.IfStmt)
				if !ok || !strings.Contains(src(ifs.Cond), "isNumeric(basic)") {
					if ok && !strings.Contains(src(ifs.Cond), "e.Op == token.NEQ") && !strings.Contains(src(ifs.Cond), "isInterface") {
						// other top-level ifs of the clause are not numeric
					}
					continue
				}
				n++
				numericCond := src(ifs.Cond)
				if ifs.Init != nil {
					numericCond = src(ifs.Init) + "; " + numericCond
				}
				out = append(out, rec{Sec: "bin", Case: "-", Guard: "-", Text: "numeric branch: if " + numericCond})
				for _, inner := range ifs.Body.List {
					switch s := inner.(type) {
					case *ast.IfStmt:
						c := src(s.Cond)
						sec := "bin?" + c
						if c == "is64Bit(basic)" {
							sec = "bin64"
						} else if c == "isComplex(basic)" {
							sec = "bincomplex"
						}
						ok := false
						for _, x := range s.Body.List {
							if sw := isOpSwitch(x); sw != nil {
								opSwitch(sec, sw, nil)
								ok = true
							} else {
								out = append(out, rec{Sec: sec, Case: "-", Guard: "-", Text: "stmt: " + src(x)})
							}
						}
						if !ok {
							fail("no e.Op switch under if " + c)
						}
						if s.Else != nil {
							fail("else branch under if " + c)
						}
					case *ast.SwitchStmt:
						if sw := isOpSwitch(s); sw != nil {
							opSwitch("bin", sw, nil)
						} else {
							fail("unexpected switch in numeric branch: " + src(s.Tag))
						}
					default:
						out = append(out, rec{Sec: "bin", Case: "-", Guard: "-", Text: "stmt: " + src(inner)})
					}
				}
			}
			if n != 1 {
				fail(fmt.Sprintf("%d numeric branches in case *ast.BinaryExpr", n))
			}
		}
	}
	// fixNumber
	if fn := findFunc(f, "fixNumber"); fn == nil {
		fail("func fixNumber not found")
	} else {
		flatten("fix", "-", fn.Body.List, nil)
	}
	// numeric conversions: translateConversion, `switch t := desiredType.Underlying().(type) { case *types.Basic: switch { case isInteger(t) … case isFloat(t) … case isComplex(t)`
	if tc := findFunc(f, "translateConversion"); tc == nil {
		fail("func translateConversion not found")
	} else if bc := typeClause(tc.Body, "*types.Basic"); bc == nil {
		fail("case *types.Basic of translateConversion not found")
	} else {
		ok := false
		for _, st := range bc.Body {
			if sw, isSw := st.(*ast.SwitchStmt); isSw && sw.Tag == nil {
				for _, c := range sw.Body.List {
					cc := c.(*ast.CaseClause)
					l := exprList(cc.List)
					if l == "isInteger(t)" || l == "isFloat(t)" || l == "isComplex(t)" {
						flatten("conv", l, cc.Body, nil)
						ok = true
					}
				}
			}
		}
		if !ok {
			fail("numeric cases of translateConversion not found")
		}
	}
	// helper predicates the guards refer to (their definitions select the operand classes)
	for _, name := range []string{"is64Bit", "isUnsigned", "isInteger", "isFloat", "isComplex", "isNumeric", "toJavaScriptType"} {
		found := false
		for _, file := range []string{"utils.go", "expressions.go"} {
			ff, err := parser.ParseFile(fset, filepath.Join(repo(), "compiler", file), nil, 0)
			if err != nil {
				continue
			}
			if fd := findFunc(ff, name); fd != nil {
				flatten("pred", name, fd.Body.List, nil)
				found = true
				break
			}
		}
		if !found {
			fail("predicate " + name + " not found")
		}
	}
	enc := json.NewEncoder(os.Stdout)
	enc.SetEscapeHTML(false)
	for _, r := range out {
		enc.Encode(r)
	}
}

func filterSec(l []rec, sec string) []rec {
	var r []rec
	for _, x := range l {
		if x.Sec != sec {
			r = append(r, x)
		}
	}
	return r
}
