// gvh_c17 — lists every place in the compiler and build packages of the repo where an iteration
// order chosen by the Go runtime could matter: `for … range <map>` (go/types), calls of unstable
// sorts, and callers of InstanceMap.Iterate/Keys. Each site carries a fingerprint of the code that
// makes it harmless (the loop itself, and for "collect then sort" sites the innermost enclosing
// block, which contains the sort), so that a Lean obligation can check every site against the
// audited table and an edit of that code re-opens the audit.
package main

import (
	"crypto/sha1"
	"encoding/hex"
	"encoding/json"
	"fmt"
	"go/ast"
	"go/parser"
	"go/printer"
	"go/token"
	"go/types"
	"os"
	"path/filepath"
	"sort"
	"strings"

	"golang.org/x/tools/go/packages"
)

type site struct {
	Kind  string `json:"kind"` // maprange | unstablesort | iterate
	File  string `json:"file"`
	Func  string `json:"func"`
	Expr  string `json:"expr"`
	N     int    `json:"n"`     // ordinal among identical (kind, file, func, expr)
	Loop  string `json:"loop"`  // fingerprint of the statement / call itself
	Block string `json:"block"` // fingerprint of the innermost enclosing block
}

func text(n ast.Node) string {
	var sb strings.Builder
	printer.Fprint(&sb, token.NewFileSet(), n)
	return sb.String()
}

func fp(n ast.Node) string {
	h := sha1.Sum([]byte(text(n)))
	return hex.EncodeToString(h[:])[:10]
}

// sessionFacts reads build/build.go: the map-typed fields of Session, and the fields that BuildProject resets
// (`s.X = make(...)`) before its first other statement.
func sessionFacts(repo string) {
	fset := token.NewFileSet()
	f, err := parser.ParseFile(fset, filepath.Join(repo, "build", "build.go"), nil, 0)
	if err != nil {
		fmt.Fprintln(os.Stderr, err)
		os.Exit(2)
	}
	mapFields, resets := []string{}, []string{}
	for _, d := range f.Decls {
		switch d := d.(type) {
		case *ast.GenDecl:
			for _, sp := range d.Specs {
				ts, ok := sp.(*ast.TypeSpec)
				if !ok || ts.Name.Name != "Session" {
					continue
				}
				if st, ok := ts.Type.(*ast.StructType); ok {
					for _, fl := range st.Fields.List {
						if _, isMap := fl.Type.(*ast.MapType); isMap {
							for _, n := range fl.Names {
								mapFields = append(mapFields, n.Name)
							}
						}
					}
				}
			}
		case *ast.FuncDecl:
			if d.Name.Name != "BuildProject" || d.Recv == nil || d.Body == nil {
				continue
			}
			recv := ""
			if len(d.Recv.List) > 0 && len(d.Recv.List[0].Names) > 0 {
				recv = d.Recv.List[0].Names[0].Name
			}
			for _, st := range d.Body.List {
				as, ok := st.(*ast.AssignStmt)
				if !ok || as.Tok != token.ASSIGN || len(as.Lhs) != 1 || len(as.Rhs) != 1 {
					break
				}
				sel, ok := as.Lhs[0].(*ast.SelectorExpr)
				if !ok {
					break
				}
				id, ok := sel.X.(*ast.Ident)
				if !ok || id.Name != recv {
					break
				}
				call, ok := as.Rhs[0].(*ast.CallExpr)
				if !ok {
					break
				}
				fn, ok := call.Fun.(*ast.Ident)
				if !ok || fn.Name != "make" || len(call.Args) != 1 {
					break
				}
				if _, isMap := call.Args[0].(*ast.MapType); !isMap {
					break
				}
				resets = append(resets, sel.Sel.Name)
			}
		}
	}
	sort.Strings(mapFields)
	sort.Strings(resets)
	json.NewEncoder(os.Stdout).Encode(map[string][]string{"map_fields": mapFields, "reset_by_BuildProject": resets})
}

func main() {
	repo := os.Getenv("VERIF_REPO")
	if repo == "" {
		repo = "/repo"
	}
	if len(os.Args) > 1 && os.Args[1] == "session" {
		sessionFacts(repo)
		return
	}
	cfg := &packages.Config{
		Mode: packages.NeedName | packages.NeedFiles | packages.NeedCompiledGoFiles | packages.NeedSyntax | packages.NeedTypes | packages.NeedTypesInfo | packages.NeedImports | packages.NeedDeps,
		Dir:  repo,
		Env:  append(os.Environ(), "GOFLAGS=-mod=mod", "GOPROXY=off", "GOOS=", "GOARCH="),
	}
	pkgs, err := packages.Load(cfg, "./compiler/...", "./build/...", "./internal/sourcemapx/...", "./internal/govendor/...", ".")
	if err != nil {
		fmt.Fprintln(os.Stderr, err)
		os.Exit(2)
	}
	var sites []site
	seen := map[string]int{}
	for _, p := range pkgs {
		if len(p.Errors) > 0 {
			fmt.Fprintln(os.Stderr, "package errors:", p.PkgPath, p.Errors[0])
			os.Exit(2)
		}
		for i, f := range p.Syntax {
			rel, _ := filepath.Rel(repo, p.CompiledGoFiles[i])
			if strings.HasSuffix(rel, "_test.go") || strings.Contains(rel, "verif_hooks") || strings.HasPrefix(rel, "compiler/natives/src/") {
				continue
			}
			var stack []ast.Node
			curFunc := func() string {
				for k := len(stack) - 1; k >= 0; k-- {
					if fd, ok := stack[k].(*ast.FuncDecl); ok {
						fn := fd.Name.Name
						if fd.Recv != nil && len(fd.Recv.List) > 0 {
							fn = "(" + text(fd.Recv.List[0].Type) + ")." + fn
						}
						return fn
					}
				}
				return "<file>"
			}
			curBlock := func() string {
				for k := len(stack) - 1; k >= 0; k-- {
					if b, ok := stack[k].(*ast.BlockStmt); ok {
						return fp(b)
					}
				}
				return "-"
			}
			add := func(kind, expr string, n ast.Node) {
				fn := curFunc()
				k := kind + "|" + rel + "|" + fn + "|" + expr
				seen[k]++
				sites = append(sites, site{Kind: kind, File: rel, Func: fn, Expr: expr, N: seen[k], Loop: fp(n), Block: curBlock()})
			}
			ast.Inspect(f, func(n ast.Node) bool {
				if n == nil {
					stack = stack[:len(stack)-1]
					return true
				}
				switch n := n.(type) {
				case *ast.CallExpr:
					if sel, ok := n.Fun.(*ast.SelectorExpr); ok {
						kind := ""
						if id, ok := sel.X.(*ast.Ident); ok {
							if pn, ok := p.TypesInfo.Uses[id].(*types.PkgName); ok {
								path := pn.Imported().Path()
								if (path == "sort" && (sel.Sel.Name == "Slice" || sel.Sel.Name == "Sort")) ||
									(path == "slices" && (sel.Sel.Name == "SortFunc" || sel.Sel.Name == "Sort")) {
									kind = "unstablesort"
								}
							}
						}
						if kind == "" && (sel.Sel.Name == "Iterate" || sel.Sel.Name == "Keys") {
							if t := p.TypesInfo.TypeOf(sel.X); t != nil && strings.Contains(t.String(), "InstanceMap") {
								kind = "iterate"
							}
						}
						if kind != "" {
							expr := text(n.Fun)
							if kind == "unstablesort" && len(n.Args) > 0 {
								expr += "(" + text(n.Args[0]) + ")"
							}
							add(kind, expr, n)
						}
					}
				case *ast.RangeStmt:
					if t := p.TypesInfo.TypeOf(n.X); t != nil {
						if _, ok := t.Underlying().(*types.Map); ok {
							add("maprange", text(n.X), n)
						}
					}
				}
				stack = append(stack, n)
				return true
			})
		}
	}
	sort.Slice(sites, func(i, j int) bool {
		a, b := sites[i], sites[j]
		ka := a.Kind + "|" + a.File + "|" + a.Func + "|" + a.Expr
		kb := b.Kind + "|" + b.File + "|" + b.Func + "|" + b.Expr
		if ka != kb {
			return ka < kb
		}
		return a.N < b.N
	})
	json.NewEncoder(os.Stdout).Encode(sites)
}
