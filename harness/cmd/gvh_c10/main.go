// gvh_c10 — implementation side of property C10 (package linking, initialisation order, linknames).
//
//	gvh_c10 prog [-j N]   JSON jobs on stdin ({id, mod, files, variants, native, timeout, keep_js}), one JSON result per job.
//	                      Multi-package programs are resolved in GOPATH mode: start the process with
//	                      GOPATH=<scratch dir> GO111MODULE=off GOFLAGS= (go/build reads GOPATH at package init).
//	                      For every job the program is compiled with the real pipeline, the import graph of the
//	                      linked archives, the order of the `$packages[...] =` assignments, the `$init` calls inside every
//	                      package's `$init`, the tail of the program and the LinkingNames are extracted, and the program
//	                      is run under Node (and natively).
//	gvh_c10 linkname      JSON lines {pkg, src} on stdin: the REAL linkname.ParseGoLinknames on the parsed file; one
//	                      canonical answer line per input line.
//	gvh_c10 sym           lines `<pkghex> <namehex>`: symbol.Name{pkg,name}.IsMethod() of the real type.
package main

import (
	"bufio"
	"bytes"
	"encoding/hex"
	"encoding/json"
	"fmt"
	"go/parser"
	"go/token"
	"os"
	"os/exec"
	"path/filepath"
	"regexp"
	"strings"
	"sync"
	"time"

	"github.com/gopherjs/gopherjs/build"
	"github.com/gopherjs/gopherjs/compiler"
	"github.com/gopherjs/gopherjs/compiler/errlist"
	"github.com/gopherjs/gopherjs/compiler/linkname"
	"github.com/gopherjs/gopherjs/compiler/sources"

	"gvh/internal/gojs"
)

type job struct {
	ID       string            `json:"id"`
	Mod      string            `json:"mod"`
	Files    map[string]string `json:"files"`
	Variants []string          `json:"variants"`
	Native   bool              `json:"native"`
	Timeout  float64           `json:"timeout"`
	KeepJS   bool              `json:"keep_js"`
	FileArgs [][]string        `json:"file_args"` // main package built from explicit file lists (`gopherjs build a.go c.go b.go`), one run "args<i>" per list
}

type runOut struct {
	Stdout string `json:"stdout"`
	Stderr string `json:"stderr"`
	Class  string `json:"class"`
	Exit   int    `json:"exit"`
	Err    string `json:"err,omitempty"`
	JS     string `json:"js,omitempty"`
}

type pkgFacts struct {
	Path          string   `json:"path"`
	Imports       []string `json:"imports"`        // Archive.Imports
	InitCalls     []string `json:"init_calls"`     // paths whose $init is called inside this package's $init, in order
	SelfReset     bool     `json:"self_reset"`     // `$pkg.$init = function() {};` precedes everything else in $init
	BlkChecks     int      `json:"blk_checks"`     // import $init calls followed by the `$r.$blk` check
	BlockingInits int      `json:"blocking_inits"` // non-import decls whose InitCode contains a suspension point ($blk)
	InitItems     int      `json:"init_items"`     // non-import decls with InitCode
	Links         []string `json:"links"`          // GoLinknames: ref|impl
	Syms          []string `json:"syms"`           // LinkingName.String() of function decls of user packages
}

type result struct {
	ID      string            `json:"id"`
	Runs    map[string]runOut `json:"runs"`
	Pkgs    []pkgFacts        `json:"pkgs"`     // in archive (dependency) order
	JSOrder []string          `json:"js_order"` // order of `$packages["…"] =` assignments in the emitted JS
	Tail    []string          `json:"tail"`     // order of the boot statements at the end of the program
	Elapsed float64           `json:"elapsed"`
}

func clip(s string) string {
	if len(s) > 400000 {
		return s[:400000] + "...<clipped>"
	}
	return s
}

func sanitize(s string) string {
	return strings.Map(func(r rune) rune {
		if r >= 'a' && r <= 'z' || r >= 'A' && r <= 'Z' || r >= '0' && r <= '9' || r == '_' {
			return r
		}
		return '_'
	}, s)
}

type built struct {
	archives []*compiler.Archive
	js       []byte
}

func compile(dir string, minify bool) (b *built, err error) {
	gojs.Init()
	defer func() {
		if r := recover(); r != nil {
			err = fmt.Errorf("compiler panic: %v", r)
		}
	}()
	s, err := build.NewSession(&build.Options{Minify: minify, NoCache: true})
	if err != nil {
		return nil, err
	}
	pkg, err := s.XContext().Import(".", dir, 0)
	if err != nil {
		return nil, err
	}
	archive, err := s.BuildProject(pkg)
	if err != nil {
		return nil, err
	}
	deps, err := compiler.ImportDependencies(archive, s.ImportResolverFor(""))
	if err != nil {
		return nil, err
	}
	var buf bytes.Buffer
	if err := compiler.WriteProgramCode(deps, compiler.DefaultFilter(&buf), s.GoRelease()); err != nil {
		return nil, err
	}
	return &built{archives: deps, js: buf.Bytes()}, nil
}

// compileFiles is `gopherjs build f1.go f2.go …`: the real Session.BuildFiles with the files in the given order.
func compileFiles(dir string, names []string, out string) (js []byte, err error) {
	gojs.Init()
	defer func() {
		if r := recover(); r != nil {
			err = fmt.Errorf("compiler panic: %v", r)
		}
	}()
	s, err := build.NewSession(&build.Options{NoCache: true})
	if err != nil {
		return nil, err
	}
	paths := make([]string, len(names))
	for i, n := range names {
		paths[i] = filepath.Join(dir, n)
	}
	if err := s.BuildFiles(paths, out, dir); err != nil {
		return nil, err
	}
	return os.ReadFile(out)
}

var (
	rxPkgStart  = regexp.MustCompile(`(?m)^\$packages\["([^"]+)"\] = \(function\(\) \{`)
	rxImportVar = regexp.MustCompile(`(?m)^\t(\$?\w+) = \$packages\["([^"]+)"\];`)
	rxInitCall  = regexp.MustCompile(`(?m)^\s*(?:\$r = )?(\$?\w+)\.\$init\(\);`) // awaited (`$r = p.$init();`) or plain (`p.$init();`)
	rxBlk       = regexp.MustCompile(`\$r = (\$?\w+)\.\$init\(\); /\* \*/ \$s = (\d+); case (\d+): if\(\$c\) \{ \$c = false; \$r = \$r\.\$blk\(\); \} if \(\$r && \$r\.\$blk !== undefined\) \{ break s; \}`)
)

func facts(b *built, userPrefix string) (pkgs []pkgFacts, order []string, tail []string) {
	js := string(b.js)
	locs := rxPkgStart.FindAllStringSubmatchIndex(js, -1)
	blocks := map[string]string{}
	for i, l := range locs {
		name := js[l[2]:l[3]]
		order = append(order, name)
		end := len(js)
		if i+1 < len(locs) {
			end = locs[i+1][0]
		}
		blocks[name] = js[l[0]:end]
	}
	for _, a := range b.archives {
		pf := pkgFacts{Path: a.ImportPath, Imports: append([]string{}, a.Imports...)}
		blk := blocks[a.ImportPath]
		vars := map[string]string{}
		for _, m := range rxImportVar.FindAllStringSubmatch(blk, -1) {
			vars[m[1]] = m[2]
		}
		initStart := strings.Index(blk, "\t$init = function() {\n")
		if initStart >= 0 {
			body := blk[initStart+len("\t$init = function() {\n"):]
			pf.SelfReset = strings.HasPrefix(body, "\t\t$pkg.$init = function() {};\n")
			for _, m := range rxInitCall.FindAllStringSubmatch(body, -1) {
				p, ok := vars[m[1]]
				if !ok {
					p = "?" + m[1]
				}
				pf.InitCalls = append(pf.InitCalls, p)
			}
			for _, m := range rxBlk.FindAllStringSubmatch(body, -1) {
				if m[2] == m[3] {
					pf.BlkChecks++
				}
			}
		}
		for _, d := range a.Declarations {
			if len(d.ImportCode) == 0 && len(d.InitCode) > 0 {
				pf.InitItems++
				if bytes.Contains(d.InitCode, []byte("$blk")) || d.Blocking {
					pf.BlockingInits++
				}
			}
		}
		for _, l := range a.GoLinknames {
			pf.Links = append(pf.Links, l.Reference.String()+"|"+l.Implementation.String())
		}
		if strings.HasPrefix(a.ImportPath, userPrefix) {
			for _, d := range a.Declarations {
				if d.LinkingName.Name != "" {
					pf.Syms = append(pf.Syms, d.LinkingName.String())
				}
			}
		}
		pkgs = append(pkgs, pf)
	}
	// boot statements after the last package
	last := 0
	if len(locs) > 0 {
		last = locs[len(locs)-1][0]
	}
	rest := js[last:]
	type tok struct {
		pos  int
		name string
	}
	var toks []tok
	for name, pat := range map[string]string{
		"finishSetup":       `$callForAllPackages("$finishSetup");`,
		"synthesizeMethods": `$synthesizeMethods();`,
		"initLinknames":     `$callForAllPackages("$initLinknames");`,
		"runtime.$init":     `$packages["runtime"].$init();`,
		"$go(main.$init)":   `$go($mainPkg.$init, []);`,
	} {
		from := 0
		for {
			i := strings.Index(rest[from:], pat)
			if i < 0 {
				break
			}
			toks = append(toks, tok{from + i, name})
			from += i + len(pat)
		}
	}
	for i := 0; i < len(toks); i++ {
		for j := i + 1; j < len(toks); j++ {
			if toks[j].pos < toks[i].pos {
				toks[i], toks[j] = toks[j], toks[i]
			}
		}
	}
	for _, t := range toks {
		tail = append(tail, t.name)
	}
	return
}

func buildNative(dir, out string) error {
	cmd := exec.Command("go", "build", "-o", out, ".")
	cmd.Dir = dir
	cmd.Env = append(os.Environ(), "GOFLAGS=", "GOPROXY=off", "GOSUMDB=off", "GOTOOLCHAIN=local", "CGO_ENABLED=0", "GOOS=", "GOARCH=",
		"GO111MODULE=off")
	b, err := cmd.CombinedOutput()
	if err != nil {
		return fmt.Errorf("native build: %v: %s", err, b)
	}
	return nil
}

func runJob(j job, scratch string) (res result) {
	t0 := time.Now()
	res = result{ID: j.ID, Runs: map[string]runOut{}}
	defer func() { res.Elapsed = time.Since(t0).Seconds() }()
	if j.Mod == "" {
		j.Mod = "gvq" + sanitize(j.ID)
	}
	dir := filepath.Join(scratch, "src", j.Mod)
	defer os.RemoveAll(dir)
	files := map[string]string{}
	for k, v := range j.Files {
		files[k] = v
	}
	files["go.mod"] = "" // placeholder so WriteModule writes none of its own; removed below
	if err := gojs.WriteModule(dir, j.Mod, files); err != nil {
		res.Runs["setup"] = runOut{Err: err.Error()}
		return
	}
	os.Remove(filepath.Join(dir, "go.mod"))
	to := time.Duration(j.Timeout * float64(time.Second))
	if to == 0 {
		to = 300 * time.Second
	}
	if len(j.Variants) == 0 {
		j.Variants = []string{"plain"}
	}
	for _, v := range j.Variants {
		b, err := compile(dir, v == "minify")
		if err != nil {
			res.Runs[v] = runOut{Err: err.Error(), Class: "compile-error"}
			continue
		}
		if v == "plain" {
			res.Pkgs, res.JSOrder, res.Tail = facts(b, j.Mod)
		}
		jsPath := filepath.Join(dir, "out_"+sanitize(v)+".js")
		if err := os.WriteFile(jsPath, b.js, 0o644); err != nil {
			res.Runs[v] = runOut{Err: err.Error()}
			continue
		}
		r := gojs.RunNode(jsPath, to)
		if r.TimedOut {
			r = gojs.RunNode(jsPath, 3*to)
		}
		os.Remove(jsPath)
		ro := runOut{Stdout: clip(r.Stdout), Stderr: clip(r.Stderr), Class: r.Class(), Exit: r.Exit}
		if j.KeepJS {
			ro.JS = string(b.js)
		}
		res.Runs[v] = ro
	}
	for i, names := range j.FileArgs {
		v := fmt.Sprintf("args%d", i)
		jsPath := filepath.Join(dir, "out_"+v+".js")
		if _, err := compileFiles(dir, names, jsPath); err != nil {
			res.Runs[v] = runOut{Err: err.Error(), Class: "compile-error"}
			continue
		}
		r := gojs.RunNode(jsPath, to)
		if r.TimedOut {
			r = gojs.RunNode(jsPath, 3*to)
		}
		os.Remove(jsPath)
		os.Remove(jsPath + ".map")
		res.Runs[v] = runOut{Stdout: clip(r.Stdout), Stderr: clip(r.Stderr), Class: r.Class(), Exit: r.Exit}
	}
	if j.Native {
		bin := filepath.Join(dir, "native.bin")
		if err := buildNative(dir, bin); err != nil {
			res.Runs["native"] = runOut{Err: err.Error(), Class: "compile-error"}
		} else {
			r := gojs.RunNative(bin, to)
			res.Runs["native"] = runOut{Stdout: clip(r.Stdout), Stderr: clip(r.Stderr), Class: r.Class(), Exit: r.Exit}
		}
	}
	return
}

func cmdProg(args []string) int {
	par := 6
	for i := 0; i < len(args); i++ {
		if args[i] == "-j" && i+1 < len(args) {
			fmt.Sscanf(args[i+1], "%d", &par)
			i++
		}
	}
	scratch := os.Getenv("GOPATH")
	if scratch == "" || os.Getenv("GO111MODULE") != "off" || strings.Contains(scratch, string(os.PathListSeparator)) {
		fmt.Fprintln(os.Stderr, "gvh_c10 prog: start with GOPATH=<scratch dir> GO111MODULE=off")
		return 2
	}
	if err := os.MkdirAll(filepath.Join(scratch, "src"), 0o755); err != nil {
		fmt.Fprintln(os.Stderr, err)
		return 2
	}
	dec := json.NewDecoder(os.Stdin)
	var jobs []job
	for dec.More() {
		var j job
		if err := dec.Decode(&j); err != nil {
			fmt.Fprintln(os.Stderr, "bad job:", err)
			return 2
		}
		jobs = append(jobs, j)
	}
	results := make([]result, len(jobs))
	var wg sync.WaitGroup
	sem := make(chan struct{}, par)
	for i := range jobs {
		wg.Add(1)
		sem <- struct{}{}
		go func(i int) {
			defer wg.Done()
			defer func() { <-sem }()
			results[i] = runJob(jobs[i], scratch)
		}(i)
	}
	wg.Wait()
	enc := json.NewEncoder(os.Stdout)
	enc.SetEscapeHTML(false)
	for _, r := range results {
		enc.Encode(r)
	}
	return 0
}

// ---- linkname ---------------------------------------------------------------------------

type lnJob struct {
	Pkg string `json:"pkg"`
	Src string `json:"src"`
}

func hx(s string) string {
	if s == "" {
		return "-"
	}
	return hex.EncodeToString([]byte(s))
}

func classify(msg string) string {
	switch {
	case strings.Contains(msg, "usage requires 2 arguments"):
		return "err:usage"
	case strings.Contains(msg, `only allowed in Go files that import "unsafe"`):
		return "err:unsafe"
	case strings.Contains(msg, "is not found in the current source file"):
		return "err:notfound"
	case strings.Contains(msg, "only supported for functions"):
		return "err:notfunc"
	case strings.Contains(msg, "can not insert local implementation"):
		return "err:insert"
	}
	return "err:other:" + msg
}

// answer: decisions in comment order is not recoverable from the API (directives and errors are separate
// lists), so the canonical line lists the accepted directives in order, then the error classes in order.
func lnAnswer(j lnJob) (ans string) {
	defer func() {
		if r := recover(); r != nil {
			ans = fmt.Sprintf("panic:%v", r)
		}
	}()
	fset := token.NewFileSet()
	f, err := parser.ParseFile(fset, "x.go", j.Src, parser.ParseComments)
	if err != nil {
		return "parse-error:" + err.Error()
	}
	links, lerr := linkname.ParseGoLinknames(fset, j.Pkg, f)
	var out []string
	for _, l := range links {
		out = append(out, fmt.Sprintf("accept:%s:%s:%s:%s", hx(l.Reference.PkgPath), hx(l.Reference.Name), hx(l.Implementation.PkgPath), hx(l.Implementation.Name)))
	}
	if lerr != nil {
		var errs []error
		if el, ok := lerr.(errlist.ErrorList); ok {
			errs = el
		} else {
			errs = []error{lerr}
		}
		for _, e := range errs {
			out = append(out, classify(e.Error()))
		}
	}
	if len(out) == 0 {
		return "-"
	}
	return strings.Join(out, " ")
}

func cmdLinkname() int {
	sc := bufio.NewScanner(os.Stdin)
	sc.Buffer(make([]byte, 1<<20), 1<<26)
	w := bufio.NewWriter(os.Stdout)
	defer w.Flush()
	for sc.Scan() {
		var j lnJob
		if err := json.Unmarshal(sc.Bytes(), &j); err != nil {
			fmt.Fprintln(w, "bad-job")
			continue
		}
		fmt.Fprintln(w, lnAnswer(j))
	}
	return 0
}

// cmdSym: `<pkghex> <namehex>` -> IsMethod of the real symbol.Name (the type lives in an internal package; a value
// of it is obtained from a parsed directive and its exported fields are overwritten).
func cmdSym() int {
	fset := token.NewFileSet()
	src := "package p\nimport _ \"unsafe\"\n//go:linkname f q.g\nfunc f()\n"
	f, err := parser.ParseFile(fset, "x.go", src, parser.ParseComments)
	if err != nil {
		fmt.Fprintln(os.Stderr, err)
		return 2
	}
	links, err := linkname.ParseGoLinknames(fset, "p", f)
	if err != nil || len(links) != 1 {
		fmt.Fprintln(os.Stderr, "cannot obtain a symbol.Name value:", err)
		return 2
	}
	n := links[0].Implementation
	sc := bufio.NewScanner(os.Stdin)
	sc.Buffer(make([]byte, 1<<20), 1<<26)
	w := bufio.NewWriter(os.Stdout)
	defer w.Flush()
	unhex := func(s string) string {
		if s == "-" {
			return ""
		}
		b, _ := hex.DecodeString(s)
		return string(b)
	}
	for sc.Scan() {
		p := strings.Fields(sc.Text())
		if len(p) != 2 {
			fmt.Fprintln(w, "bad-op")
			continue
		}
		n.PkgPath, n.Name = unhex(p[0]), unhex(p[1])
		recv, method, ok := n.IsMethod()
		if !ok {
			fmt.Fprintln(w, "none")
		} else {
			fmt.Fprintln(w, hx(recv)+" "+hx(method))
		}
	}
	return 0
}

// cmdSort: one line = file names separated by commas ("-" = none), in the order the files are handed to the compiler.
// Builds a sources.Sources with one parsed file per name and calls the REAL Sources.Sort; answers the resulting order.
func cmdSort() int {
	sc := bufio.NewScanner(os.Stdin)
	sc.Buffer(make([]byte, 1<<20), 1<<26)
	w := bufio.NewWriter(os.Stdout)
	defer w.Flush()
	for sc.Scan() {
		line := strings.TrimSpace(sc.Text())
		var names []string
		if line != "-" && line != "" {
			names = strings.Split(line, ",")
		}
		ans := func() (ans string) {
			defer func() {
				if r := recover(); r != nil {
					ans = fmt.Sprintf("panic:%v", r)
				}
			}()
			fset := token.NewFileSet()
			srcs := &sources.Sources{ImportPath: "p", FileSet: fset}
			for _, n := range names {
				f, err := parser.ParseFile(fset, n, "package p\n", 0)
				if err != nil {
					return "parse-error:" + err.Error()
				}
				srcs.Files = append(srcs.Files, f)
			}
			srcs.Sort()
			out := make([]string, len(srcs.Files))
			for i, f := range srcs.Files {
				out[i] = fset.File(f.Pos()).Name()
			}
			if len(out) == 0 {
				return "-"
			}
			return strings.Join(out, ",")
		}()
		fmt.Fprintln(w, ans)
	}
	return 0
}

func main() {
	if len(os.Args) < 2 {
		fmt.Fprintln(os.Stderr, "usage: gvh_c10 prog|linkname|sym")
		os.Exit(2)
	}
	switch os.Args[1] {
	case "prog":
		os.Exit(cmdProg(os.Args[2:]))
	case "linkname":
		os.Exit(cmdLinkname())
	case "sym":
		os.Exit(cmdSym())
	case "sort":
		os.Exit(cmdSort())
	}
	fmt.Fprintln(os.Stderr, "gvh_c10: unknown command")
	os.Exit(2)
}
