package main

import (
	"bytes"
	"encoding/gob"
	"fmt"
	"go/ast"
	"go/parser"
	"go/printer"
	"go/token"
	"io"
	"os"
	"path/filepath"
	"sort"
	"strings"
	"time"

	"github.com/gopherjs/gopherjs/build/cache"
	"github.com/gopherjs/gopherjs/compiler/linkname"
	"github.com/gopherjs/gopherjs/compiler/sources"
)

// snapshot of everything about the in-memory package that the build still uses after Store: per file the Comments
// list (identity, position and text of every group), every comment group reachable from a node (Doc/Comment
// fields), the import list, the printed source with comments, and the go:linkname directives that
// compiler/linkname parses from it. Ident.Obj is excluded: prepareFile clears it on purpose (deprecated field).
func snapshotSources(s *sources.Sources) []string {
	var out []string
	add := func(f string, a ...any) { out = append(out, fmt.Sprintf(f, a...)) }
	add("importpath %q dir %q files %d js %d", s.ImportPath, s.Dir, len(s.Files), len(s.JSFiles))
	for i, f := range s.Files {
		name := s.FileSet.Position(f.Package).Filename
		add("file %d %s doc=%p ncomments=%d nimports=%d ndecls=%d", i, name, f.Doc, len(f.Comments), len(f.Imports), len(f.Decls))
		for j, cg := range f.Comments {
			if cg == nil {
				add("file %d Comments[%d] = nil", i, j)
				continue
			}
			add("file %d Comments[%d] = %p @%s %q", i, j, cg, s.FileSet.Position(cg.Pos()), cg.Text())
			for k, c := range cg.List {
				add("file %d Comments[%d].List[%d] = %p %q", i, j, k, c, c.Text)
			}
		}
		ast.Inspect(f, func(n ast.Node) bool {
			if cg, ok := n.(*ast.CommentGroup); ok {
				add("file %d attached %p @%s %q", i, cg, s.FileSet.Position(cg.Pos()), cg.Text())
			}
			return true
		})
		for j, im := range f.Imports {
			add("file %d Imports[%d] = %p %s", i, j, im, im.Path.Value)
		}
		var b bytes.Buffer
		if err := printer.Fprint(&b, s.FileSet, f); err != nil {
			add("file %d printer error %v", i, err)
		}
		add("file %d printed %q", i, b.String())
		lns, err := linkname.ParseGoLinknames(s.FileSet, s.ImportPath, f)
		add("file %d linknames err=%v n=%d", i, err, len(lns))
		for _, ln := range lns {
			add("file %d linkname %v -> %v", i, ln.Reference, ln.Implementation)
		}
	}
	for _, j := range s.JSFiles {
		add("js %q %q", j.Path, j.Content)
	}
	return out
}

func parseDir(dir, importPath string) (*sources.Sources, error) {
	fset := token.NewFileSet()
	names, err := filepath.Glob(filepath.Join(dir, "*.go"))
	if err != nil {
		return nil, err
	}
	sort.Strings(names)
	s := &sources.Sources{ImportPath: importPath, Dir: dir, FileSet: fset}
	for _, n := range names {
		if strings.HasSuffix(n, "_test.go") {
			continue
		}
		f, err := parser.ParseFile(fset, n, nil, parser.ParseComments)
		if err != nil {
			return nil, err
		}
		s.Files = append(s.Files, f)
	}
	if len(s.Files) == 0 {
		return nil, fmt.Errorf("no Go files in %s", dir)
	}
	return s, nil
}

// writeprobe <dir>...: "Store is read-only on its argument". Parses every directory (plus the built-in file with
// every node kind) as a package, snapshots the in-memory Sources, runs the real Sources.Write (gob encoder) and the
// real BuildCache.Store on it, snapshots again; prints one line per package.
func writeprobeMain(args []string) int {
	cache.Clear()
	bc := &cache.BuildCache{GOOS: "js", GOARCH: "ecmascript", GOROOT: "/goroot", GOPATH: "/gopath", Version: "probe"}
	type job struct {
		name string
		s    *sources.Sources
	}
	jobs := []job{{"builtin:allnodes", &newSrcPayload().Sources}}
	for _, d := range args {
		s, err := parseDir(d, "probe/"+filepath.Base(d))
		if err != nil {
			fmt.Printf("writeprobe %s error:%s\n", d, strings.ReplaceAll(err.Error(), " ", "_"))
			continue
		}
		jobs = append(jobs, job{d, s})
	}
	for _, j := range jobs {
		res := guarded(func() string {
			before := snapshotSources(j.s)
			if err := j.s.Write(gob.NewEncoder(io.Discard).Encode); err != nil {
				return "error:write:" + strings.ReplaceAll(err.Error(), " ", "_")
			}
			mid := snapshotSources(j.s)
			if !bc.Store(j.s, j.s.ImportPath, time.Now()) {
				return "error:store-failed"
			}
			after := snapshotSources(j.s)
			for _, pair := range [][2][]string{{before, mid}, {before, after}} {
				a, b := pair[0], pair[1]
				if len(a) != len(b) {
					return fmt.Sprintf("CHANGED lines=%d->%d", len(a), len(b))
				}
				for i := range a {
					if a[i] != b[i] {
						return "CHANGED " + strings.ReplaceAll(fmt.Sprintf("before{%.160s} after{%.160s}", a[i], b[i]), " ", "_")
					}
				}
			}
			nfl := 0
			for _, l := range before {
				if strings.Contains(l, " Comments[") && !strings.Contains(l, ".List[") {
					nfl++
				}
			}
			return fmt.Sprintf("unchanged files=%d comment-groups=%d facts=%d", len(j.s.Files), nfl, len(before))
		})
		fmt.Printf("writeprobe %s %s\n", j.name, res)
	}
	_ = os.Stdout
	return 0
}
