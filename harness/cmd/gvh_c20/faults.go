package main

import (
	"bytes"
	"crypto/sha256"
	"encoding/hex"
	"fmt"
	"go/ast"
	"go/parser"
	"go/printer"
	"go/token"
	"math/rand"
	"os"
	"path/filepath"
	"strconv"
	"strings"
	"time"

	"github.com/gopherjs/gopherjs/build/cache"
	"github.com/gopherjs/gopherjs/compiler/incjs"
	"github.com/gopherjs/gopherjs/compiler/sources"
)

type payload interface {
	cache.Cacheable
	fp() string
}

// every syntactic node kind of go/ast (the parser only; the file is never type-checked)
const allNodes = `// Package doc comment.
package allnodes

import (
	"fmt"
	m "math"
	_ "unsafe"
	. "strings"
)

//go:linkname localname runtime.remote
func localname()

type (
	A    [4]int
	S    []string
	M    map[string]*int
	C    chan<- int
	R    <-chan struct{}
	F    func(a, b int, c ...string) (x int, err error)
	I    interface {
		M(int) string
		fmt.Stringer
		~int | ~string
	}
	G[T any, U comparable] struct {
		t T ` + "`json:\"t\"`" + `
		U
		*A
		next *G[T, U]
	}
	E = A
)

const (
	c0 = iota * 10
	c1
	c2 float64 = 1.5e3
	c3 = 'x' + "s"[0]
	c4 = 0x1p-2 + 1i
)

var v0, v1 int = 1, 2
var v2 = [...]int{1, 2: 3, 4}
var v3 = map[string][]S{"a": {{"x"}, nil}}
var v4 = struct{ X, Y int }{X: 1, Y: 2}

func (g *G[T, U]) Method(x T) (r U) { return }

func generic[T ~int | ~int8](x T) T { return x + 1 }

func all(a int, fs ...func()) (res int, err error) {
	defer func() { recover() }()
	go fs[0]()
	var x interface{} = a
	var p *int = &a
	*p++
	a--
	a += 2
	a <<= 1
	a &^= 3
	b, c := a*2, -a
	_ = ^b | c&1 ^ 2
	_ = !(a < b) && a >= c || a != b
	arr := v2[:]
	_ = arr[1:2:3]
	_ = arr[0]
	_ = m.Sqrt(float64(a))
	_ = generic[int](a)
	_ = G[int, string]{t: 1}
	_ = (*A)(nil)
	_ = func(y int) int { return y }(1)
	ch := make(chan int, 1)
	ch <- 1
	<-ch
	if y, ok := x.(int); ok {
		a = y
	} else if a > 0 {
		a = 0
	} else {
		a = 1
	}
	for i := 0; i < 3; i++ {
		if i == 1 {
			continue
		}
		break
	}
	for {
		break
	}
	for a < 0 {
		a++
	}
outer:
	for k, v := range v3 {
		_, _ = k, v
		for range arr {
			continue outer
		}
		break outer
	}
	switch a {
	case 1, 2:
		fallthrough
	case 3:
	default:
		goto end
	}
	switch y := x.(type) {
	case int, string:
		_ = y
	case nil:
	default:
	}
	switch {
	case a > 0:
	}
	select {
	case v := <-ch:
		_ = v
	case ch <- 2:
	default:
	}
	{
		var _ = fmt.Sprint /* inline comment */ ("x")
	}
	;
end:
	return a, nil
}
`

type srcPayload struct{ sources.Sources }

func newSrcPayload() *srcPayload {
	fset := token.NewFileSet()
	f, err := parser.ParseFile(fset, "/scratch/allnodes/all.go", allNodes, parser.ParseComments)
	if err != nil {
		die("parse allNodes: %v", err)
	}
	f2, err := parser.ParseFile(fset, "/scratch/allnodes/b.go", "package allnodes\n\n// B doc\nfunc B() int { return 2 } // trailing\n", parser.ParseComments)
	if err != nil {
		die("parse b: %v", err)
	}
	return &srcPayload{sources.Sources{
		ImportPath: "example.org/allnodes", Dir: "/scratch/allnodes", Files: []*ast.File{f, f2}, FileSet: fset,
		JSFiles: []incjs.File{{Path: "/scratch/allnodes/x.inc.js", ModTime: time.Unix(1700000000, 0), Content: []byte("$x = 1;\n")}},
	}}
}

// fp: printed code of every file (comments stripped), the kind and position of every node (attached
// comment groups are nodes), and the reconstructed import list. Free-floating comments are not part of it.
func (s *srcPayload) fp() (res string) {
	defer func() {
		if r := recover(); r != nil {
			res = "fp-panic"
		}
	}()
	h := sha256.New()
	fmt.Fprintf(h, "%q %q %d|", s.ImportPath, s.Dir, len(s.Files))
	for _, f := range s.Files {
		if s.FileSet == nil || f == nil {
			fmt.Fprint(h, "nil")
			continue
		}
		cp := *f
		cp.Comments = nil
		var b bytes.Buffer
		if err := printer.Fprint(&b, s.FileSet, &cp); err != nil {
			fmt.Fprintf(h, "printer-error")
		}
		h.Write(b.Bytes())
		ast.Inspect(f, func(n ast.Node) bool {
			if n != nil {
				fmt.Fprintf(h, "%T@%s-%s;", n, s.FileSet.Position(n.Pos()), s.FileSet.Position(n.End()))
				if c, ok := n.(*ast.Comment); ok {
					fmt.Fprintf(h, "%q;", c.Text)
				}
			}
			return true
		})
		for _, im := range f.Imports {
			fmt.Fprintf(h, "import %s@%s;", im.Path.Value, s.FileSet.Position(im.Pos()))
		}
	}
	for _, j := range s.JSFiles {
		fmt.Fprintf(h, "js %q %d %q;", j.Path, j.ModTime.UnixNano(), j.Content)
	}
	return hex.EncodeToString(h.Sum(nil))[:16]
}

// comments lists every comment of the files' Comments lists (attached and free-floating).
func (s *srcPayload) comments() []string {
	var out []string
	for _, f := range s.Files {
		for _, cg := range f.Comments {
			for _, c := range cg.List {
				out = append(out, c.Text)
			}
		}
	}
	return out
}

func region(off, n int) string {
	switch {
	case off < 10:
		return "header"
	case off >= n-8:
		return "trailer"
	}
	return "body"
}

// faults <payloadspec|sources> <masks comma hex> <nrand> <seed> [flip stride] [truncation stride]
// [all]  (strides > 1 sample the interior offsets; the first and last 64 offsets are always enumerated.
// Every damaged file is also loaded with source times later than the build time: all four with `all` or at the
// edges, one in rotation otherwise.)
func faultsMain(args []string) int {
	root := cacheRoot()
	var orig payload
	fresh := func() payload { return &blob{} }
	if args[0] == "sources" {
		orig = newSrcPayload()
		fresh = func() payload { return &srcPayload{} }
	} else {
		orig = newBlob(payloadSpec(args[0]))
	}
	var masks []byte
	for _, m := range strings.Split(args[1], ",") {
		v, _ := strconv.ParseUint(m, 16, 8)
		masks = append(masks, byte(v))
	}
	nrand, _ := strconv.Atoi(args[2])
	seed, _ := strconv.ParseInt(args[3], 10, 64)
	rng := rand.New(rand.NewSource(seed))
	flipStride, truncStride := 1, 1
	if len(args) > 4 {
		flipStride, _ = strconv.Atoi(args[4])
	}
	if len(args) > 5 {
		truncStride, _ = strconv.Atoi(args[5])
	}
	phase := int(seed)

	bc := &cache.BuildCache{GOOS: "js", GOARCH: "ecmascript", GOROOT: "/goroot", GOPATH: "/gopath", Version: "v"}
	t0 := time.Unix(1700000000, 500)
	cache.Clear()
	before := snapshot(root)
	if !bc.Store(orig, "example.org/allnodes", t0) {
		die("store failed")
	}
	ch := changed(before, snapshot(root))
	if len(ch) != 1 {
		die("expected one new file, got %v", ch)
	}
	file := filepath.Join(root, ch[0])
	data, err := os.ReadFile(file)
	if err != nil {
		die("%v", err)
	}
	n := len(data)
	// baseline: the undamaged file loads, and what it loads to is the reference content
	base := fresh()
	if !bc.Load(base, "example.org/allnodes", t0) {
		die("undamaged entry does not load")
	}
	want := base.fp()
	rt := "roundtrip-differs"
	if want == orig.fp() {
		rt = "roundtrip-identical"
	}
	fmt.Printf("info len=%d %s\n", n, rt)

	// staleness under damage: source times later than the true build time; the only allowed outcome is a miss
	laterNames := []string{"+1ns", "+1s", "+1h", "+1y"}
	later := []time.Time{t0.Add(1), t0.Add(time.Second), t0.Add(time.Hour), t0.Add(365 * 24 * time.Hour)}
	staleAll := len(args) > 6 && args[6] == "all"
	ntry := 0
	// try writes the damaged bytes, loads them with the build time as source time (fresh) and then with later
	// source times (`edge`: all of them; otherwise all in the thorough tier, one in rotation in the quick tier).
	try := func(cls, detail, reg string, d []byte, edge bool) {
		if d == nil {
			os.Remove(file)
		} else if err := os.WriteFile(file, d, 0o640); err != nil {
			die("%v", err)
		}
		fmt.Printf("%s %s %s %s\n", cls, detail, reg, guarded(func() string {
			c := fresh()
			if !bc.Load(c, "example.org/allnodes", t0) {
				return "miss"
			}
			if c.fp() == want {
				return "same"
			}
			return "DIFF"
		}))
		ntry++
		for i, lt := range later {
			if !(edge || staleAll || i == ntry%len(later)) {
				continue
			}
			lt := lt
			fmt.Printf("stale %s:%s@%s %s %s\n", cls, detail, laterNames[i], reg, guarded(func() string {
				c := fresh()
				if !bc.Load(c, "example.org/allnodes", lt) {
					return "miss"
				}
				if c.fp() == want {
					return "FRESH-same"
				}
				return "FRESH-DIFF"
			}))
		}
	}
	for i, lt := range later { // sanity: the undamaged entry is stale for every later source time
		if bc.Load(fresh(), "example.org/allnodes", lt) {
			die("undamaged entry loads with source time %s", laterNames[i])
		}
	}
	try("missing", "-", "-", nil, true)
	for k := 0; k < n; k++ {
		if k >= 64 && k < n-64 && (k+phase)%truncStride != 0 {
			continue
		}
		try("trunc", strconv.Itoa(k), region(k, n), data[:k], k < 64 || k >= n-64)
	}
	for off := 0; off < n; off++ {
		if off >= 64 && off < n-64 && (off+phase)%flipStride != 0 {
			continue
		}
		for _, m := range masks {
			d := append([]byte{}, data...)
			d[off] ^= m
			try("flip", fmt.Sprintf("%d:%02x", off, m), region(off, n), d, off < 64 || off >= n-64)
		}
	}
	for i := 0; i < nrand; i++ {
		d := append([]byte{}, data...)
		k := 2 + rng.Intn(7)
		regs := map[string]bool{}
		var desc []string
		kind := rng.Intn(3)
		for j := 0; j < k; j++ {
			off := rng.Intn(n)
			if kind == 1 && n > 10 {
				off = 10 + rng.Intn(n-10) // body/trailer only
			} else if kind == 2 {
				off = rng.Intn(10) // header only
			}
			m := byte(1 + rng.Intn(255))
			d[off] ^= m
			regs[region(off, n)] = true
			desc = append(desc, fmt.Sprintf("%d:%02x", off, m))
		}
		r := "header"
		if regs["body"] || regs["trailer"] {
			r = "body"
		}
		if bytes.Equal(d, data) {
			continue
		}
		try("multi", strings.Join(desc, ","), r, d, false)
	}
	// splice: garbage appended, and the file replaced by another valid entry's bytes prefix + own suffix
	try("append", "16", "body", append(append([]byte{}, data...), bytes.Repeat([]byte{0xAA}, 16)...), true)
	try("empty", "0", "header", []byte{}, true)
	try("restore", "-", "-", data, true)
	return 0
}

// roundtrip: Store/Load of a Sources holding every AST node kind; prints the comparison.
func roundtripMain(args []string) int {
	cache.Clear()
	bc := &cache.BuildCache{GOOS: "js", GOARCH: "ecmascript", GOROOT: "/goroot", GOPATH: "/gopath", Version: "v"}
	orig := newSrcPayload()
	kinds := map[string]bool{}
	for _, f := range orig.Files {
		ast.Inspect(f, func(n ast.Node) bool {
			if n != nil {
				kinds[fmt.Sprintf("%T", n)] = true
			}
			return true
		})
	}
	t0 := time.Now()
	if !bc.Store(orig, orig.ImportPath, t0) {
		die("store failed")
	}
	got := &srcPayload{}
	if !bc.Load(got, orig.ImportPath, t0) {
		fmt.Println("roundtrip miss")
		return 0
	}
	res := "identical"
	if got.fp() != orig.fp() {
		res = "different"
	}
	have := map[string]bool{}
	for _, c := range got.comments() {
		have[c] = true
	}
	lost, lostDirective := 0, 0
	for _, c := range orig.comments() {
		if !have[c] {
			lost++
			if strings.HasPrefix(c, "//go:") {
				lostDirective++
			}
		}
	}
	res = fmt.Sprintf("%s floating-comments-lost=%d directives-lost=%d", res, lost, lostDirective)
	fmt.Printf("roundtrip %s node-kinds=%d\n", res, len(kinds))
	return 0
}
