// gvh_c20 — implementation side of the C20 check: drives the REAL build cache of /repo
// (build/cache.BuildCache, compiler/sources.Sources, build.Session) in a scratch cache directory.
// XDG_CACHE_HOME must point to a scratch directory BEFORE this process starts (the cache root is
// fixed at package init).
package main

import (
	"bufio"
	"bytes"
	"crypto/sha256"
	"encoding/hex"
	"fmt"
	"io"
	"io/fs"
	"math/rand"
	"os"
	"path"
	"path/filepath"
	"sort"
	"strconv"
	"strings"
	"syscall"
	"time"

	"github.com/gopherjs/gopherjs/build/cache"
	"github.com/sirupsen/logrus"
)

func die(f string, a ...any) {
	fmt.Fprintf(os.Stderr, "gvh_c20: "+f+"\n", a...)
	os.Exit(3)
}

func unhex(s string) string {
	if s == "-" {
		return ""
	}
	b, err := hex.DecodeString(s)
	if err != nil {
		die("bad hex %q", s)
	}
	return string(b)
}

func hx(s string) string {
	if s == "" {
		return "-"
	}
	return hex.EncodeToString([]byte(s))
}

func cacheRoot() string {
	d := os.Getenv("XDG_CACHE_HOME")
	if d == "" || !strings.Contains(d, "gv") {
		die("XDG_CACHE_HOME must be a scratch directory (got %q)", d)
	}
	return filepath.Join(d, "gopherjs", "build_cache")
}

// parseBC: goos goarch goroot gopath tags version tested
func parseBC(t []string) *cache.BuildCache {
	bc := &cache.BuildCache{GOOS: unhex(t[0]), GOARCH: unhex(t[1]), GOROOT: unhex(t[2]), GOPATH: unhex(t[3]),
		Version: unhex(t[5]), TestedPackage: unhex(t[6])}
	switch t[4] {
	case "nil":
		bc.BuildTags = nil
	case "e":
		bc.BuildTags = []string{}
	default:
		for _, x := range strings.Split(t[4], ",") {
			bc.BuildTags = append(bc.BuildTags, unhex(x))
		}
	}
	return bc
}

// blob is the Cacheable used for key/staleness/fault experiments: several gob values, like Sources.
type blob struct {
	Head  string
	Parts [][]byte
	Tail  int
}

func newBlob(payload []byte) *blob {
	b := &blob{Head: "GVH-C20"}
	for i := 0; i < len(payload); i += 1000 {
		j := i + 1000
		if j > len(payload) {
			j = len(payload)
		}
		b.Parts = append(b.Parts, payload[i:j])
	}
	b.Tail = len(payload)
	return b
}

func (b *blob) Write(enc func(any) error) error {
	if err := enc(b.Head); err != nil {
		return err
	}
	if err := enc(len(b.Parts)); err != nil {
		return err
	}
	for _, p := range b.Parts {
		if err := enc(p); err != nil {
			return err
		}
	}
	return enc(b.Tail)
}

func (b *blob) Read(dec func(any) error) error {
	if err := dec(&b.Head); err != nil {
		return err
	}
	var n int
	if err := dec(&n); err != nil {
		return err
	}
	if n < 0 || n > 1<<20 {
		return fmt.Errorf("bad part count")
	}
	b.Parts = nil
	for i := 0; i < n; i++ {
		var p []byte
		if err := dec(&p); err != nil {
			return err
		}
		b.Parts = append(b.Parts, p)
	}
	return dec(&b.Tail)
}

func (b *blob) payload() []byte { return bytes.Join(b.Parts, nil) }

// fingerprint includes the framing fields so that any altered field counts as different content.
func (b *blob) fp() string {
	h := sha256.New()
	fmt.Fprintf(h, "%q %d %d|", b.Head, len(b.Parts), b.Tail)
	for _, p := range b.Parts {
		fmt.Fprintf(h, "%d:", len(p))
		h.Write(p)
	}
	return hex.EncodeToString(h.Sum(nil))[:16]
}

// payloadSpec: "hex:<hex>" | "rnd:<seed>:<n>" (incompressible) | "txt:<seed>:<n>" (compressible)
func payloadSpec(s string) []byte {
	p := strings.Split(s, ":")
	switch p[0] {
	case "hex":
		return []byte(unhex(p[1]))
	case "rnd", "txt":
		seed, _ := strconv.ParseInt(p[1], 10, 64)
		n, _ := strconv.Atoi(p[2])
		r := rand.New(rand.NewSource(seed))
		out := make([]byte, n)
		if p[0] == "rnd" {
			r.Read(out)
		} else {
			words := []string{"func ", "return ", "package ", "x", "y", " := ", "\n", "(", ")", "0", "1"}
			var b bytes.Buffer
			for b.Len() < n {
				b.WriteString(words[r.Intn(len(words))])
			}
			copy(out, b.Bytes())
		}
		return out
	}
	die("bad payload spec %q", s)
	return nil
}

type fstate map[string]string

func snapshot(root string) fstate {
	st := fstate{}
	filepath.WalkDir(root, func(p string, d fs.DirEntry, err error) error {
		if err != nil || d.IsDir() {
			return nil
		}
		fi, err := d.Info()
		if err != nil {
			return nil
		}
		ino := uint64(0)
		if s, ok := fi.Sys().(*syscall.Stat_t); ok {
			ino = s.Ino
		}
		rel, _ := filepath.Rel(root, p)
		st[rel] = fmt.Sprintf("%d/%d/%d", ino, fi.Size(), fi.ModTime().UnixNano())
		return nil
	})
	return st
}

func changed(a, b fstate) []string {
	var out []string
	for k, v := range b {
		if a[k] != v {
			out = append(out, k)
		}
	}
	for k := range a {
		if _, ok := b[k]; !ok {
			out = append(out, "removed:"+k)
		}
	}
	sort.Strings(out)
	return out
}

func tm(s string) time.Time {
	n, err := strconv.ParseInt(s, 10, 64)
	if err != nil {
		die("bad time %q", s)
	}
	return time.Unix(0, n)
}

// safely runs f, turning a panic into an answer.
func guarded(f func() string) (res string) {
	defer func() {
		if r := recover(); r != nil {
			res = "panic:" + strings.ReplaceAll(fmt.Sprint(r), " ", "_")
		}
	}()
	return f()
}

func opsMain() int {
	root := cacheRoot()
	in := bufio.NewReaderSize(os.Stdin, 1<<20)
	out := bufio.NewWriter(os.Stdout)
	defer out.Flush()
	zones := []*time.Location{time.UTC, time.FixedZone("p", 3600*5+1800), time.FixedZone("m", -3600*11)}
	nline := 0
	for {
		line, err := in.ReadString('\n')
		if line == "" && err != nil {
			break
		}
		nline++
		w := strings.Fields(line)
		ans := "bad-op"
		if len(w) >= 2 && w[0] == "cache" {
			switch w[1] {
			case "reset":
				if e := cache.Clear(); e != nil {
					die("clear: %v", e)
				}
				ans = "ok"
			case "nonprint":
				ans = "ok" // parameter of the model only: Go uses its own unicode tables
			case "clean":
				c := hx(path.Clean(unhex(w[2])))
				ans = c + " " + c
			case "quote":
				ans = hx(fmt.Sprintf("%#v", unhex(w[2])))
			case "store":
				bc := parseBC(w[2:9])
				p, t, pl := unhex(w[9]), tm(w[10]).In(zones[nline%3]), []byte(unhex(w[11]))
				ans = guarded(func() string {
					before := snapshot(root)
					ok := bc.Store(newBlob(pl), p, t)
					ch := changed(before, snapshot(root))
					if !ok && len(ch) == 0 {
						return "skipped"
					}
					if ok && len(ch) == 1 {
						return "stored " + ch[0]
					}
					return fmt.Sprintf("anomaly ok=%v changed=%s", ok, strings.Join(ch, ","))
				})
			case "load":
				bc := parseBC(w[2:9])
				p, t := unhex(w[9]), tm(w[10]).In(zones[(nline+1)%3])
				ans = guarded(func() string {
					b := &blob{}
					if bc.Load(b, p, t) {
						if b.Head != "GVH-C20" || b.Tail != len(b.payload()) {
							return "hit-malformed"
						}
						return "hit " + hx(string(b.payload()))
					}
					return "miss"
				})
			}
		}
		fmt.Fprintln(out, ans)
		if err != nil {
			break
		}
	}
	return 0
}

func main() {
	logrus.SetOutput(io.Discard)
	if len(os.Args) < 2 {
		die("usage: gvh_c20 ops|faults|store1|load1|fp|build|roundtrip")
	}
	switch os.Args[1] {
	case "ops":
		os.Exit(opsMain())
	case "faults":
		os.Exit(faultsMain(os.Args[2:]))
	case "store1":
		bc := parseBC(os.Args[2:9])
		ok := bc.Store(newBlob(payloadSpec(os.Args[11])), unhex(os.Args[9]), tm(os.Args[10]))
		fmt.Println("store", ok)
	case "load1":
		bc := parseBC(os.Args[2:9])
		fmt.Println(guarded(func() string {
			b := &blob{}
			if bc.Load(b, unhex(os.Args[9]), tm(os.Args[10])) {
				return "hit " + b.fp()
			}
			return "miss"
		}))
	case "isprint":
		// prints the runes of the comma-separated list for which strconv.IsPrint is false
		var out []string
		for _, x := range strings.Split(os.Args[2], ",") {
			if n, err := strconv.Atoi(x); err == nil && !strconv.IsPrint(rune(n)) {
				out = append(out, x)
			}
		}
		fmt.Println(strings.Join(out, ","))
	case "fp":
		fmt.Println(newBlob(payloadSpec(os.Args[2])).fp())
	case "build":
		os.Exit(buildMain(os.Args[2:]))
	case "writeprobe":
		os.Exit(writeprobeMain(os.Args[2:]))
	case "buildseq":
		os.Exit(buildseqMain(os.Args[2:]))
	case "roundtrip":
		os.Exit(roundtripMain(os.Args[2:]))
	default:
		die("unknown command %q", os.Args[1])
	}
}
