package main

import (
	"bufio"
	"bytes"
	"os"
	"strconv"
	"crypto/sha256"
	"encoding/hex"
	"fmt"
	"sort"
	"strings"
	"time"

	"github.com/gopherjs/gopherjs/build"
	"github.com/gopherjs/gopherjs/build/cache"
	"github.com/gopherjs/gopherjs/compiler"
	"gvh/internal/gojs"
)

// recCache records what the session asks of the real BuildCache.
type recCache struct {
	bc     *cache.BuildCache
	loads  int
	hits   []string
	stores int
	stored int
}

func (r *recCache) Store(c cache.Cacheable, importPath string, buildTime time.Time) bool {
	r.stores++
	ok := r.bc.Store(c, importPath, buildTime)
	if ok {
		r.stored++
	}
	return ok
}

func (r *recCache) Load(c cache.Cacheable, importPath string, srcModTime time.Time) bool {
	r.loads++
	ok := r.bc.Load(c, importPath, srcModTime)
	if ok {
		r.hits = append(r.hits, importPath)
	}
	return ok
}

// build <dir> <nocache|cache> [minify]: compiles the main package in dir with the real Session and prints
// the sha256 of the generated JavaScript plus the cache traffic.
func buildMain(args []string) int {
	gojs.Init()
	dir, mode := args[0], args[1]
	minify := len(args) > 2 && args[2] == "minify"
	res := guarded(func() string {
		s, err := build.NewSession(&build.Options{Minify: minify, NoCache: mode == "nocache"})
		if err != nil {
			return "error:newsession:" + err.Error()
		}
		rec := &recCache{}
		if mode == "cache" {
			rec.bc = s.VerifDefaultBuildCache()
			s.VerifSetBuildCache(rec)
		}
		pkg, err := s.XContext().Import(".", dir, 0)
		if err != nil {
			return "error:import:" + err.Error()
		}
		archive, err := s.BuildProject(pkg)
		if err != nil {
			return "error:build:" + strings.ReplaceAll(err.Error(), "\n", " ")
		}
		deps, err := compiler.ImportDependencies(archive, s.ImportResolverFor(""))
		if err != nil {
			return "error:deps:" + err.Error()
		}
		var buf bytes.Buffer
		if err := compiler.WriteProgramCode(deps, compiler.DefaultFilter(&buf), s.GoRelease()); err != nil {
			return "error:write:" + err.Error()
		}
		sum := sha256.Sum256(buf.Bytes())
		sort.Strings(rec.hits)
		return fmt.Sprintf("js sha256=%s bytes=%d loads=%d hits=%d stores=%d stored=%d hitlist=%s",
			hex.EncodeToString(sum[:]), buf.Len(), rec.loads, len(rec.hits), rec.stores, rec.stored, strings.Join(rec.hits, ","))
	})
	fmt.Println(res)
	return 0
}

// buildseq: file-argument mode (`gopherjs build x.go` / `gopherjs run x.go` both call Session.BuildFiles; they
// differ only in where the output file goes). Reads a script from stdin, one step per line, every build in a
// FRESH Session, all sharing this process's cache directory:
//
//	clear
//	touch <file> <seconds relative to now>
//	build <file> <cwd> <out.js> <cache|nocache> <marker>
func buildseqMain(args []string) int {
	gojs.Init()
	in := bufio.NewScanner(os.Stdin)
	for in.Scan() {
		w := strings.Fields(in.Text())
		if len(w) == 0 {
			continue
		}
		switch w[0] {
		case "clear":
			if err := cache.Clear(); err != nil {
				die("clear: %v", err)
			}
			fmt.Println("ok")
		case "touch":
			d, _ := strconv.Atoi(w[2])
			t := time.Now().Add(time.Duration(d) * time.Second)
			if err := os.Chtimes(w[1], t, t); err != nil {
				die("touch: %v", err)
			}
			fmt.Println("ok")
		case "build":
			file, cwd, out, mode, marker := w[1], w[2], w[3], w[4], w[5]
			fmt.Println(guarded(func() string {
				s, err := build.NewSession(&build.Options{NoCache: mode == "nocache"})
				if err != nil {
					return "error:newsession:" + err.Error()
				}
				rec := &recCache{}
				if mode == "cache" {
					rec.bc = s.VerifDefaultBuildCache()
					s.VerifSetBuildCache(rec)
				}
				if err := s.BuildFiles([]string{file}, out, cwd); err != nil {
					return "error:buildfiles:" + strings.ReplaceAll(err.Error(), "\n", " ")
				}
				js, err := os.ReadFile(out)
				if err != nil {
					return "error:read:" + err.Error()
				}
				sum := sha256.Sum256(js)
				has := 0
				if bytes.Contains(js, []byte(marker)) {
					has = 1
				}
				sort.Strings(rec.hits)
				return fmt.Sprintf("js sha256=%s marker=%d loads=%d hits=%d stored=%d hitlist=%s",
					hex.EncodeToString(sum[:]), has, rec.loads, len(rec.hits), rec.stored, strings.Join(rec.hits, ","))
			}))
		default:
			die("buildseq: bad step %q", in.Text())
		}
	}
	return 0
}
