package main

import (
	"bytes"
	"crypto/sha256"
	"encoding/hex"
	"fmt"
	"sort"
	"strings"
	"time"

	"github.com/gopherjs/gopherjs/build"
	"github.com/gopherjs/gopherjs/build/cache"
	"github.com/gopherjs/gopherjs/compiler"
	"gvh/internal/gojs"
)

// recCache records what the session asks of the real BuildCache.
type recCache struct {
	bc     *cache.BuildCache
	loads  int
	hits   []string
	stores int
	stored int
}

func (r *recCache) Store(c cache.Cacheable, importPath string, buildTime time.Time) bool {
	r.stores++
	ok := r.bc.Store(c, importPath, buildTime)
	if ok {
		r.stored++
	}
	return ok
}

func (r *recCache) Load(c cache.Cacheable, importPath string, srcModTime time.Time) bool {
	r.loads++
	ok := r.bc.Load(c, importPath, srcModTime)
	if ok {
		r.hits = append(r.hits, importPath)
	}
	return ok
}

// build <dir> <nocache|cache> [minify]: compiles the main package in dir with the real Session and prints
// the sha256 of the generated JavaScript plus the cache traffic.
func buildMain(args []string) int {
	gojs.Init()
	dir, mode := args[0], args[1]
	minify := len(args) > 2 && args[2] == "minify"
	res := guarded(func() string {
		s, err := build.NewSession(&build.Options{Minify: minify, NoCache: mode == "nocache"})
		if err != nil {
			return "error:newsession:" + err.Error()
		}
		rec := &recCache{}
		if mode == "cache" {
			rec.bc = s.VerifDefaultBuildCache()
			s.VerifSetBuildCache(rec)
		}
		pkg, err := s.XContext().Import(".", dir, 0)
		if err != nil {
			return "error:import:" + err.Error()
		}
		archive, err := s.BuildProject(pkg)
		if err != nil {
			return "error:build:" + strings.ReplaceAll(err.Error(), "\n", " ")
		}
		deps, err := compiler.ImportDependencies(archive, s.ImportResolverFor(""))
		if err != nil {
			return "error:deps:" + err.Error()
		}
		var buf bytes.Buffer
		if err := compiler.WriteProgramCode(deps, compiler.DefaultFilter(&buf), s.GoRelease()); err != nil {
			return "error:write:" + err.Error()
		}
		sum := sha256.Sum256(buf.Bytes())
		sort.Strings(rec.hits)
		return fmt.Sprintf("js sha256=%s bytes=%d loads=%d hits=%d stores=%d stored=%d hitlist=%s",
			hex.EncodeToString(sum[:]), buf.Len(), rec.loads, len(rec.hits), rec.stores, rec.stored, strings.Join(rec.hits, ","))
	})
	fmt.Println(res)
	return 0
}
