// gvh_c19 — implementation side of the C19 (source maps) check. Drives the REAL
// internal/sourcemapx (Hint, FindHint, ReadHint, Filter, WriteJS) and the position bookkeeping
// of compiler.funcContext through the verif-tagged hook /repo/compiler/verif_hooks_c19.go, and
// compiles whole programs with source maps enabled.
//
//	gvh_c19 lines   op lines on stdin (topic `srcmap`), one answer line each
//	gvh_c19 prog    JSON jobs on stdin, one JSON result per job
package main

import (
	"bufio"
	"fmt"
	"os"
)

func main() {
	if len(os.Args) < 2 {
		fmt.Fprintln(os.Stderr, "usage: gvh_c19 lines|prog")
		os.Exit(2)
	}
	switch os.Args[1] {
	case "lines":
		in := bufio.NewReaderSize(os.Stdin, 1<<20)
		out := bufio.NewWriterSize(os.Stdout, 1<<20)
		defer out.Flush()
		sc := bufio.NewScanner(in)
		sc.Buffer(make([]byte, 1<<20), 1<<28)
		for sc.Scan() {
			fmt.Fprintln(out, handleLine(sc.Text()))
		}
		if err := sc.Err(); err != nil {
			fmt.Fprintln(os.Stderr, err)
			os.Exit(2)
		}
	case "prog":
		os.Exit(progMain(os.Args[2:]))
	default:
		fmt.Fprintf(os.Stderr, "gvh_c19: unknown command %q\n", os.Args[1])
		os.Exit(2)
	}
}
