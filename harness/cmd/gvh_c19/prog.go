package main

import (
	"bytes"
	"encoding/json"
	"fmt"
	"os"
	"path/filepath"
	"sync"
	"time"
	"unicode/utf8"

	"github.com/gopherjs/gopherjs/build"
	"github.com/gopherjs/gopherjs/compiler"

	"gvh/internal/gojs"
)

// One program, compiled like build.Session.WriteCommandPackage does (build/build.go:1300-1330): a
// sourcemapx.Filter around the code writer, Session.EnableMapping when a map is wanted, WriteProgramCode,
// WriteMappingTo, trailer. Compiled twice per variant: without and with the map.
type job struct {
	ID       string            `json:"id"`
	Files    map[string]string `json:"files"`
	Minify   bool              `json:"minify"`
	LocalMap bool              `json:"localmap"`
	Run      bool              `json:"run"`
	Timeout  float64           `json:"timeout"`
	// Dir: build the project that the check has already laid out in this directory (GOPATH-mode projects below
	// $GOPATH/src, projects in directories that are siblings of GOROOT); Files is then only informative.
	Dir string `json:"dir"`
}

type result struct {
	ID      string  `json:"id"`
	Err     string  `json:"err,omitempty"`
	JSNoMap string  `json:"js_nomap"`
	JSMap   string  `json:"js_map"`
	JSEqual bool    `json:"js_equal"` // bytes(out.js with map, before the trailer) == bytes(out.js without map)
	Magic   int     `json:"magic"`    // number of 0x08 bytes in out.js (with map)
	NonUTF8 bool    `json:"non_utf8"`
	Map     string  `json:"map"`
	Dir     string  `json:"dir"`
	GOROOT  string  `json:"goroot"`
	GOPATH  string  `json:"gopath"`
	Stdout  string  `json:"stdout"`
	Stderr  string  `json:"stderr"`
	Exit    int     `json:"exit"`
	Class   string  `json:"class"`
	Elapsed float64 `json:"elapsed"`
}

func compileOne(dir string, minify, withMap, localMap bool) (js []byte, mp []byte, goroot string, err error) {
	gojs.Init()
	defer func() {
		if r := recover(); r != nil {
			err = fmt.Errorf("compiler panic: %v", r)
		}
	}()
	opts := &build.Options{Minify: minify, NoCache: true, CreateMapFile: withMap, MapToLocalDisk: localMap}
	s, err := build.NewSession(opts)
	if err != nil {
		return nil, nil, "", err
	}
	pkg, err := s.XContext().Import(".", dir, 0)
	if err != nil {
		return nil, nil, "", err
	}
	archive, err := s.BuildProject(pkg)
	if err != nil {
		return nil, nil, "", err
	}
	deps, err := compiler.ImportDependencies(archive, s.ImportResolverFor(""))
	if err != nil {
		return nil, nil, "", err
	}
	var buf bytes.Buffer
	filter := compiler.DefaultFilter(&buf)
	if withMap {
		s.EnableMapping(filter, "out.js")
	}
	if err := compiler.WriteProgramCode(deps, filter, s.GoRelease()); err != nil {
		return nil, nil, "", err
	}
	var mb bytes.Buffer
	if withMap {
		if err := filter.WriteMappingTo(&mb); err != nil {
			return nil, nil, "", err
		}
	}
	return buf.Bytes(), mb.Bytes(), s.XContext().Env().GOROOT, nil
}

func runJob(j job, scratch string) result {
	t0 := time.Now()
	res := result{ID: j.ID}
	dir := filepath.Join(scratch, "p"+j.ID)
	if j.Dir != "" {
		dir = j.Dir
	} else {
		if err := gojs.WriteModule(dir, "gvprog", j.Files); err != nil {
			res.Err = err.Error()
			return res
		}
		defer os.RemoveAll(dir)
	}
	res.Dir = dir
	res.GOPATH = os.Getenv("GOPATH")
	plain, _, _, err := compileOne(dir, j.Minify, false, j.LocalMap)
	if err != nil {
		res.Err = "compile(no map): " + err.Error()
		return res
	}
	mapped, mp, goroot, err := compileOne(dir, j.Minify, true, j.LocalMap)
	if err != nil {
		res.Err = "compile(map): " + err.Error()
		return res
	}
	res.GOROOT = goroot
	res.JSEqual = bytes.Equal(plain, mapped)
	res.Magic = bytes.Count(mapped, []byte{compiler.VerifC19Magic})
	res.JSMap = string(mapped)
	res.NonUTF8 = !utf8.Valid(mapped) || !utf8.Valid(mp)
	if !res.JSEqual {
		res.JSNoMap = string(plain)
	}
	res.Map = string(mp)
	if j.Run {
		jsDir := dir
		if j.Dir != "" {
			jsDir = filepath.Join(scratch, "o"+j.ID)
			os.MkdirAll(jsDir, 0o755)
			defer os.RemoveAll(jsDir)
		}
		jsPath := filepath.Join(jsDir, "out.js")
		full := append(append([]byte{}, mapped...), []byte("//# sourceMappingURL=out.js.map\n")...)
		if err := os.WriteFile(jsPath, full, 0o644); err != nil {
			res.Err = err.Error()
			return res
		}
		os.WriteFile(jsPath+".map", mp, 0o644)
		to := time.Duration(j.Timeout * float64(time.Second))
		if to == 0 {
			to = 20 * time.Second
		}
		r := gojs.RunNode(jsPath, to)
		res.Stdout, res.Stderr, res.Exit, res.Class = r.Stdout, r.Stderr, r.Exit, r.Class()
	}
	res.Elapsed = time.Since(t0).Seconds()
	return res
}

func progMain(args []string) int {
	par := 8
	for i := 0; i < len(args); i++ {
		if args[i] == "-j" && i+1 < len(args) {
			fmt.Sscanf(args[i+1], "%d", &par)
			i++
		}
	}
	scratch, err := os.MkdirTemp(os.Getenv("VERIF_SCRATCH"), "gvc19-")
	if err != nil {
		fmt.Fprintln(os.Stderr, err)
		return 2
	}
	defer os.RemoveAll(scratch)
	dec := json.NewDecoder(os.Stdin)
	var jobs []job
	for dec.More() {
		var j job
		if err := dec.Decode(&j); err != nil {
			fmt.Fprintln(os.Stderr, "bad job:", err)
			return 2
		}
		jobs = append(jobs, j)
	}
	results := make([]result, len(jobs))
	var wg sync.WaitGroup
	sem := make(chan struct{}, par)
	for i := range jobs {
		wg.Add(1)
		sem <- struct{}{}
		go func(i int) {
			defer wg.Done()
			defer func() { <-sem }()
			results[i] = runJob(jobs[i], scratch)
		}(i)
	}
	wg.Wait()
	enc := json.NewEncoder(os.Stdout)
	for _, r := range results {
		enc.Encode(r)
	}
	return 0
}
