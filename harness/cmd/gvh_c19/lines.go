package main

import (
	"encoding/hex"
	"encoding/json"
	"fmt"
	"go/token"
	"sort"
	"strconv"
	"strings"

	"github.com/gopherjs/gopherjs/compiler"
)

// The fixed file set shared with checks/c19.py (FILES there must stay identical):
// name, size, offsets of line starts.
type fileSpec struct {
	name  string
	size  int
	lines []int
}

func steps(size, step int) []int {
	var l []int
	for o := 0; o < size; o += step {
		l = append(l, o)
	}
	return l
}

var fileSpecs = []fileSpec{
	{"a.go", 500, steps(500, 25)},
	{"pkg/b.go", 300, steps(300, 17)},
	{"c.go", 100, []int{0, 1, 2, 50, 99}},
}

func newFileSet() *token.FileSet {
	fs := token.NewFileSet()
	for _, s := range fileSpecs {
		f := fs.AddFile(s.name, fs.Base(), s.size)
		if !f.SetLines(s.lines) {
			panic("bad line table")
		}
	}
	return fs
}

func unhex(s string) []byte {
	if s == "-" {
		return nil
	}
	b, err := hex.DecodeString(s)
	if err != nil {
		panic("bad hex: " + s)
	}
	return b
}

func hexs(b []byte) string {
	if len(b) == 0 {
		return "-"
	}
	return hex.EncodeToString(b)
}

func chunks(s string) [][]byte {
	if s == "." {
		return nil
	}
	var res [][]byte
	for _, c := range strings.Split(s, ",") {
		res = append(res, unhex(c))
	}
	return res
}

func panicClass(msg string) string {
	switch {
	case strings.Contains(msg, "too short to contain hint header"):
		return "panic:short-header"
	case strings.Contains(msg, "too short to contain hint payload"):
		return "panic:short-payload"
	case strings.Contains(msg, "doesn't start with magic"):
		return "panic:no-magic"
	case strings.Contains(msg, "may not be longer"):
		return "panic:too-long"
	case strings.Contains(msg, "failed to unpack"):
		return "panic:unpack"
	}
	return "panic:other:" + strings.ReplaceAll(msg, " ", "_")
}

func ints(l []int) string {
	if len(l) == 0 {
		return "-"
	}
	s := make([]string, len(l))
	for i, v := range l {
		s[i] = strconv.Itoa(v)
	}
	return strings.Join(s, ",")
}

func desc(p token.Position, name string) string {
	return fmt.Sprintf("%s|%d|%d|%s", orDash(p.Filename), p.Line, p.Column, hexs([]byte(name)))
}

func orDash(s string) string {
	if s == "" {
		return "-"
	}
	return s
}

type jsMapping struct {
	GL, GC int
	File   string
	OL, OC int
	Name   string
}

func fmtJS(ms []jsMapping) string {
	if len(ms) == 0 {
		return "-"
	}
	sort.SliceStable(ms, func(i, j int) bool {
		a, b := ms[i], ms[j]
		if a.GL != b.GL {
			return a.GL < b.GL
		}
		if a.GC != b.GC {
			return a.GC < b.GC
		}
		if a.File != b.File {
			return a.File < b.File
		}
		if a.OL != b.OL {
			return a.OL < b.OL
		}
		return a.OC < b.OC
	})
	s := make([]string, len(ms))
	for i, m := range ms {
		s[i] = fmt.Sprintf("%d:%d:%s:%d:%d", m.GL, m.GC, orDash(m.File), m.OL, m.OC)
	}
	return strings.Join(s, ";")
}

func handleLine(line string) (ans string) {
	defer func() {
		if r := recover(); r != nil {
			ans = fmt.Sprintf("harness-error:%v", r)
		}
	}()
	a := strings.Fields(line)
	if len(a) < 2 || a[0] != "srcmap" {
		return "bad-topic"
	}
	switch a[1] {
	case "build":
		// srcmap build <json items>: [{"c":hex}|{"p":pos}|{"i":[namehex,orighex,pos]}|{"r":payloadhex}|{"e":[namehex,orighex,pos]}]
		// -> per item `<encodedhex>/<payloadhex>` (code: `<hex>/.`), produced by the REAL Pack / WriteTo / EncodeHint
		var items []map[string]json.RawMessage
		if err := json.Unmarshal([]byte(strings.Join(a[2:], " ")), &items); err != nil {
			panic(err)
		}
		var out []string
		for _, it := range items {
			switch {
			case it["c"] != nil:
				var h string
				json.Unmarshal(it["c"], &h)
				out = append(out, h+"/.")
			case it["p"] != nil:
				var pos int
				json.Unmarshal(it["p"], &pos)
				pl, err := compiler.VerifC19PackPos(pos)
				if err != nil {
					panic(err)
				}
				enc, msg := compiler.VerifC19WriteHint(pl)
				if msg != "" {
					panic(msg)
				}
				out = append(out, hexs(enc)+"/"+hexs(pl))
			case it["i"] != nil || it["e"] != nil:
				var v []json.RawMessage
				viaEncodeHint := it["e"] != nil
				if viaEncodeHint {
					json.Unmarshal(it["e"], &v)
				} else {
					json.Unmarshal(it["i"], &v)
				}
				var nh, oh string
				var pos int
				json.Unmarshal(v[0], &nh)
				json.Unmarshal(v[1], &oh)
				json.Unmarshal(v[2], &pos)
				pl, err := compiler.VerifC19PackIdent(string(unhex(nh)), string(unhex(oh)), pos)
				if err != nil {
					panic(err)
				}
				var enc []byte
				var msg string
				if viaEncodeHint {
					enc, msg = compiler.VerifC19EncodeIdentHint(string(unhex(nh)), string(unhex(oh)), pos)
				} else {
					enc, msg = compiler.VerifC19WriteHint(pl)
				}
				if msg != "" {
					panic(msg)
				}
				out = append(out, hexs(enc)+"/"+hexs(pl))
			case it["r"] != nil:
				var h string
				json.Unmarshal(it["r"], &h)
				enc, msg := compiler.VerifC19WriteHint(unhex(h))
				if msg != "" {
					panic(msg)
				}
				out = append(out, hexs(enc)+"/"+h)
			}
		}
		if len(out) == 0 {
			return "."
		}
		return strings.Join(out, " ")
	case "writeto":
		enc, msg := compiler.VerifC19WriteHint(unhex(a[2]))
		if msg != "" {
			return panicClass(msg)
		}
		return hexs(enc)
	case "writelen":
		// srcmap writelen <n> <fill>: WriteTo of a payload of n bytes `fill`; answer = first 3 bytes + length (big payloads)
		n, _ := strconv.Atoi(a[2])
		fill, _ := strconv.Atoi(a[3])
		pl := make([]byte, n)
		for i := range pl {
			pl[i] = byte(fill)
		}
		enc, msg := compiler.VerifC19WriteHint(pl)
		if msg != "" {
			return panicClass(msg)
		}
		// read it back with the real ReadHint, with one trailing byte
		p2, l2, msg2 := compiler.VerifC19ReadHint(append(append([]byte{}, enc...), 0x41))
		if msg2 != "" {
			return panicClass(msg2)
		}
		same := len(p2) == len(pl)
		for i := range p2 {
			same = same && p2[i] == pl[i]
		}
		return fmt.Sprintf("%s %d %d %v", hexs(enc[:3]), len(enc), l2, same)
	case "find":
		return strconv.Itoa(compiler.VerifC19FindHint(unhex(a[2])))
	case "read":
		pl, n, msg := compiler.VerifC19ReadHint(unhex(a[2]))
		if msg != "" {
			return panicClass(msg)
		}
		return hexs(pl) + " " + strconv.Itoa(n)
	case "filter":
		// srcmap filter rec|norec <chunks> [<dict> ignored here]
		rec := a[2] == "rec"
		out, maps, ns, msg := compiler.VerifC19RunFilter(newFileSet(), chunks(a[3]), rec)
		if msg != "" {
			return panicClass(msg) + " " + hexs(out)
		}
		ms := "-"
		if len(maps) > 0 {
			s := make([]string, len(maps))
			for i, m := range maps {
				s[i] = fmt.Sprintf("%d:%d:%s", m.GenLine, m.GenCol, desc(m.Orig, m.Name))
			}
			ms = strings.Join(s, ";")
		}
		return hexs(out) + " " + ints(ns) + " " + ms
	case "jsiso":
		// srcmap jsiso <jshex> <path> <0|1>: esbuild output and its isolated mappings (filter at line 0, column 0)
		out, mj, err := compiler.VerifC19FilterJS(newFileSet(), nil, string(unhex(a[2])), a[3], a[4] == "1", nil)
		if err != nil {
			panic(err)
		}
		return hexs(out) + " " + fmtJS(decodeMap(mj))
	case "js":
		// srcmap js <prefixchunks> <jshex> <path> <0|1> [<isolated> ignored here]
		out, mj, err := compiler.VerifC19FilterJS(newFileSet(), chunks(a[2]), string(unhex(a[3])), a[4], a[5] == "1", nil)
		if err != nil {
			panic(err)
		}
		var js []jsMapping
		for _, m := range decodeMap(mj) {
			if strings.HasSuffix(m.File, ".js") {
				js = append(js, m)
			}
		}
		_ = out
		return fmtJS(js)
	case "norm", "normraw":
		// srcmap norm|normraw <goroot hex> <gopath hex> <file hex> <localmap 0|1>
		return normName(string(unhex(a[2])), string(unhex(a[3])), string(unhex(a[4])), a[5] == "1", a[1] == "normraw")
	case "fsseq":
		return fsSeq(a[2])
	case "rmws":
		out, msg := compiler.VerifC19RemoveWhitespace(unhex(a[2]), true)
		if msg != "" {
			return "panic:" + strings.ReplaceAll(msg, " ", "_")
		}
		return hexs(out)
	case "ctx":
		return runCtx(a[3:]) // a[2] = pos->payload dictionary, used by the model side only
	}
	return "bad-op"
}

// decodeMap decodes a version-3 source map (JSON) independently of the library that wrote it.
func decodeMap(mapJSON []byte) []jsMapping {
	var m struct {
		Sources  []string `json:"sources"`
		Names    []string `json:"names"`
		Mappings string   `json:"mappings"`
	}
	if err := json.Unmarshal(mapJSON, &m); err != nil {
		panic(err)
	}
	const b64 = "ABCDEFGHIJKLMNOPQRSTUVWXYZabcdefghijklmnopqrstuvwxyz0123456789+/"
	var res []jsMapping
	gl, gc, of, ol, oc, on := 1, 0, 0, 1, 0, 0
	for _, lineStr := range strings.Split(m.Mappings, ";") {
		gc = 0
		if lineStr != "" {
			for _, seg := range strings.Split(lineStr, ",") {
				var vals []int
				v, sh := 0, uint(0)
				for i := 0; i < len(seg); i++ {
					d := strings.IndexByte(b64, seg[i])
					if d < 0 {
						panic("bad base64 in mappings")
					}
					v += (d & 31) << sh
					if d&32 != 0 {
						sh += 5
						continue
					}
					if v&1 != 0 {
						vals = append(vals, -(v >> 1))
					} else {
						vals = append(vals, v>>1)
					}
					v, sh = 0, 0
				}
				jm := jsMapping{}
				gc += vals[0]
				jm.GL, jm.GC = gl, gc
				if len(vals) >= 4 {
					of += vals[1]
					ol += vals[2]
					oc += vals[3]
					jm.File, jm.OL, jm.OC = m.Sources[of], ol, oc
				}
				if len(vals) >= 5 {
					on += vals[4]
					jm.Name = m.Names[on]
				}
				res = append(res, jm)
			}
		}
		gl++
	}
	return res
}

// runCtx interprets a script against a real funcContext.
//
//	S<n> SetPos   W<hex> Write   F<hex> Printf("%s")   I( … ) Indented   C<k>( … ) CatchOutput(k) -> capture
//	D( … ) Delayed   U<j> Write(capture j)
//
// answer: <output hex> <pending: 0 | 1:pos> <captures hex,…>
func runCtx(tokens []string) string {
	ctx := compiler.VerifC19NewCtx(0)
	var caps [][]byte
	pos := 0
	var block func()
	block = func() {
		for pos < len(tokens) {
			t := tokens[pos]
			pos++
			switch {
			case t == ")":
				return
			case t[0] == 'S':
				n, _ := strconv.Atoi(t[1:])
				ctx.SetPos(n)
			case t[0] == 'W':
				ctx.Write(unhex(t[1:]))
			case t[0] == 'F':
				ctx.Printf(string(unhex(t[1:])))
			case t[0] == 'U':
				j, _ := strconv.Atoi(t[1:])
				if j < len(caps) {
					ctx.Write(caps[j])
				}
			case t == "I(":
				ctx.Indented(block)
			case t == "D(":
				ctx.Delayed(block)
			case t[0] == 'C':
				k, _ := strconv.Atoi(strings.TrimSuffix(t[1:], "("))
				idx := len(caps)
				caps = append(caps, nil)
				caps[idx] = ctx.CatchOutput(k, block)
			default:
				panic("bad ctx token " + t)
			}
		}
	}
	block()
	pend := "0"
	if ok, p := ctx.PosAvailable(); ok {
		pend = "1:" + strconv.Itoa(p)
	}
	cs := "-"
	if len(caps) > 0 {
		s := make([]string, len(caps))
		for i, c := range caps {
			s[i] = hexs(c)
		}
		cs = strings.Join(s, ",")
	}
	return hexs(ctx.Output()) + " " + pend + " " + cs
}
