package main

import (
	"bytes"
	"encoding/json"
	"fmt"
	"go/token"
	"strings"

	"github.com/gopherjs/gopherjs/compiler"
)

// normName runs the REAL Filter.normalizePath (internal/sourcemapx/filter.go) the way a build reaches it:
// a filter with EnableMapping(goroot, gopath, localMap), a FileSet whose only file has the given name, one
// position hint written through Filter.Write; the name is read back from "sources" of the written map.
//
//	raw=true : answer `name <hex>` | `nosource` | `panic:<class>`
//	raw=false: the name with leading slashes removed (what decides which file a consumer opens)
func normName(goroot, gopath, file string, localMap, raw bool) (ans string) {
	defer func() {
		if r := recover(); r != nil {
			msg := fmt.Sprint(r)
			if strings.Contains(msg, "slice bounds out of range") {
				ans = "panic:slice-bounds"
			} else {
				ans = "panic:other:" + strings.ReplaceAll(msg, " ", "_")
			}
		}
	}()
	fs := token.NewFileSet()
	tf := fs.AddFile(file, fs.Base(), 10)
	tf.SetLines([]int{0, 5})
	buf := &bytes.Buffer{}
	f := compiler.DefaultFilter(buf)
	f.FileSet = fs
	f.EnableMapping("out.js", goroot, gopath, localMap)
	pl, err := compiler.VerifC19PackPos(tf.Base() + 1)
	if err != nil {
		panic(err)
	}
	enc, msg := compiler.VerifC19WriteHint(pl)
	if msg != "" {
		panic(msg)
	}
	if _, err := f.Write(append(enc, 'x', '\n')); err != nil {
		panic(err)
	}
	mb := &bytes.Buffer{}
	if err := f.WriteMappingTo(mb); err != nil {
		panic(err)
	}
	var m struct {
		Sources []string `json:"sources"`
	}
	if err := json.Unmarshal(mb.Bytes(), &m); err != nil {
		panic(err)
	}
	if len(m.Sources) == 0 {
		return "nosource"
	}
	name := m.Sources[0]
	if !raw {
		name = strings.TrimLeft(name, "/")
		if name == "" {
			return "nosource" // names nothing below a src directory
		}
	}
	return "name " + hexs([]byte(name))
}
