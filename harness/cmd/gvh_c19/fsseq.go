package main

import (
	"bytes"
	"go/token"
	"strconv"
	"strings"

	"github.com/gopherjs/gopherjs/compiler"
)

// fsSeq drives ONE real sourcemapx.Filter (default callbacks, localMap) with a SEQUENCE of FileSets, the way
// compiler.WritePkgCode does (`w.FileSet = pkg.FileSet` before each package's code): every segment installs its own
// FileSet (files laid out from base 1, so position numbers of different segments overlap) and writes its chunks.
//
//	srcmap fsseq <fsspec>@<chunks>;<fsspec>@<chunks>… [<dict> ignored here]     fsspec = name:size:step/name:size:step
//
// answer: <out hex> <genLine:genCol:file:line:col;…> (decoded from the map the filter writes)
func fsSeq(arg string) string {
	buf := &bytes.Buffer{}
	f := compiler.DefaultFilter(buf)
	f.EnableMapping("out.js", "/goroot", "/gopath", true)
	for _, seg := range strings.Split(arg, ";") {
		parts := strings.SplitN(seg, "@", 2)
		fs := token.NewFileSet()
		for _, fsp := range strings.Split(parts[0], "/") {
			x := strings.Split(fsp, ":")
			size, _ := strconv.Atoi(x[1])
			step, _ := strconv.Atoi(x[2])
			tf := fs.AddFile(x[0], fs.Base(), size)
			if !tf.SetLines(steps(size, step)) {
				panic("bad line table")
			}
		}
		f.FileSet = fs
		for _, c := range chunks(parts[1]) {
			if _, err := f.Write(c); err != nil {
				panic(err)
			}
		}
	}
	mb := &bytes.Buffer{}
	if err := f.WriteMappingTo(mb); err != nil {
		panic(err)
	}
	return hexs(buf.Bytes()) + " " + fmtJS(decodeMap(mb.Bytes()))
}
