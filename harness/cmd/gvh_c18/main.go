// gvh_c18 — implementation side of the C18 tie: runs the real build context of /repo on generated
// package directories and on GOROOT packages, and describes files for the Lean model.
package main

import (
	"bufio"
	"encoding/json"
	"fmt"
	"go/build"
	"go/build/constraint"
	"go/parser"
	"go/token"
	"net/http"
	"os"
	"path/filepath"
	"sort"
	"strconv"
	"strings"

	gbuild "github.com/gopherjs/gopherjs/build"
	"github.com/gopherjs/gopherjs/compiler/gopherjspkg"
)

func repo() string {
	if r := os.Getenv("VERIF_REPO"); r != "" {
		return r
	}
	return "/repo"
}

type job struct {
	ID    string            `json:"id"`
	Tags  []string          `json:"tags"`
	Files map[string]string `json:"files"`
	Links []string          `json:"links"` // names of Files that are created as symlinks to regular files in a sibling directory
	Std   string            `json:"std"` // import path of a GOROOT package instead of Files
	Where string            `json:"where"` // project directory relative to $VERIF_SCRATCH (instead of the per-run scratch directory)
}

type result struct {
	ID      string   `json:"id"`
	GoFiles []string `json:"go"`
	JSFiles []string `json:"js"`
	Ignored []string `json:"ignored"`
	Invalid []string `json:"invalid"`
	Cgo     []string `json:"cgo"`
	Test    []string `json:"test"`
	Err     string   `json:"err,omitempty"`
	Desc    []string `json:"desc,omitempty"` // model description lines of every file of the directory
	Dir     string   `json:"dir,omitempty"`
}

// rpn renders a constraint expression in the driver's comma-separated RPN.
func rpn(x constraint.Expr) string {
	switch x := x.(type) {
	case *constraint.TagExpr:
		return tagTok(x.Tag)
	case *constraint.NotExpr:
		return rpn(x.X) + ",!"
	case *constraint.AndExpr:
		return rpn(x.X) + "," + rpn(x.Y) + ",&"
	case *constraint.OrExpr:
		return rpn(x.X) + "," + rpn(x.Y) + ",|"
	}
	return "?"
}

func tagTok(t string) string {
	if strings.HasPrefix(t, "go1.") {
		if n, err := strconv.Atoi(t[4:]); err == nil && n >= 0 && strconv.Itoa(n) == t[4:] {
			return "r:" + t[4:]
		}
	}
	return "t:" + t
}

// describe produces the model's view of one file: the harness-side glue (header parsing by
// go/build/constraint and go/parser's imports-only mode; NOT go/build's matcher).
func describe(dir, name string) (string, error) {
	hidden := strings.HasPrefix(name, "_") || strings.HasPrefix(name, ".")
	isGo := strings.HasSuffix(name, ".go")
	isInc := strings.HasSuffix(name, ".inc.js")
	isTest := strings.HasSuffix(name, "_test.go")
	base, _, _ := strings.Cut(name, ".")
	parts := "none"
	if i := strings.Index(base, "_"); i >= 0 {
		ps := strings.Split(base[i+1:], "_")
		for k, p := range ps {
			if p == "" {
				ps[k] = "~"
			}
		}
		parts = strings.Join(ps, ",")
	}
	goBuild, plus, importsC := "-", "-", false
	if isGo {
		src, err := os.ReadFile(filepath.Join(dir, name))
		if err != nil {
			return "", err
		}
		// header = leading comments/blank lines before the package clause
		var pl []string
		sawGoBuild := false
		lines := strings.Split(string(src), "\n")
		// +build lines only count in the leading comment block that is followed by a blank line;
		// generated files keep every constraint line directly at the top followed by a blank line.
		end := 0
		for i, l := range lines {
			t := strings.TrimSpace(l)
			if t == "" {
				end = i
				continue
			}
			if !strings.HasPrefix(t, "//") {
				break
			}
		}
		for i, l := range lines {
			t := strings.TrimSpace(l)
			if t != "" && !strings.HasPrefix(t, "//") {
				break
			}
			if constraint.IsGoBuild(t) {
				if x, err := constraint.Parse(t); err == nil && !sawGoBuild {
					goBuild = rpn(x)
					sawGoBuild = true
				}
			} else if constraint.IsPlusBuild(t) && i < end {
				if x, err := constraint.Parse(t); err == nil {
					pl = append(pl, rpn(x))
				}
			}
		}
		if len(pl) > 0 {
			plus = strings.Join(pl, ";")
		}
		fset := token.NewFileSet()
		if f, err := parser.ParseFile(fset, filepath.Join(dir, name), src, parser.ImportsOnly); err == nil {
			for _, im := range f.Imports {
				if im.Path.Value == `"C"` {
					importsC = true
				}
			}
		}
	}
	b := func(x bool) string {
		if x {
			return "1"
		}
		return "0"
	}
	return fmt.Sprintf("%s %s %s %s %s %s %s %s %s", name, b(hidden), b(isGo), b(isInc), b(isTest), parts, b(importsC), goBuild, plus), nil
}

func runJob(j job, scratch string) result {
	r := result{ID: j.ID}
	xctx := gbuild.NewBuildContext("", j.Tags)
	var pd *gbuild.PackageData
	var err error
	var dir string
	if j.Std != "" {
		pd, err = xctx.Import(j.Std, "", 0)
		if pd != nil {
			dir = pd.Dir
		}
	} else {
		dir = filepath.Join(scratch, "d"+j.ID)
		if j.Where != "" {
			dir = filepath.Join(os.Getenv("VERIF_SCRATCH"), filepath.FromSlash(j.Where), "d"+j.ID)
		}
		os.MkdirAll(dir, 0o755)
		defer os.RemoveAll(dir)
		os.WriteFile(filepath.Join(dir, "go.mod"), []byte("module gvsel\n\ngo 1.20\n"), 0o644)
		linked := map[string]bool{}
		for _, n := range j.Links {
			linked[n] = true
		}
		ldir := filepath.Join(scratch, "l"+j.ID)
		if len(linked) > 0 {
			os.MkdirAll(ldir, 0o755)
			defer os.RemoveAll(ldir)
		}
		for n, c := range j.Files {
			if linked[n] {
				os.WriteFile(filepath.Join(ldir, n), []byte(c), 0o644)
				os.Symlink(filepath.Join(ldir, n), filepath.Join(dir, n))
			} else {
				os.WriteFile(filepath.Join(dir, n), []byte(c), 0o644)
			}
		}
		pd, err = xctx.Import(".", dir, 0)
	}
	if err != nil {
		r.Err = err.Error()
		if _, ok := err.(*build.NoGoError); ok {
			r.Err = "nogo"
		}
	}
	if pd != nil && pd.Package != nil {
		r.GoFiles = append(r.GoFiles, pd.GoFiles...)
		r.Ignored = append(r.Ignored, pd.IgnoredGoFiles...)
		r.Invalid = append(r.Invalid, pd.InvalidGoFiles...)
		r.Cgo = append(r.Cgo, pd.CgoFiles...)
		r.Test = append(append(r.Test, pd.TestGoFiles...), pd.XTestGoFiles...)
		for _, f := range pd.JSFiles {
			r.JSFiles = append(r.JSFiles, filepath.Base(f.Path))
		}
	}
	if dir != "" {
		ents, _ := os.ReadDir(dir)
		for _, e := range ents {
			if e.IsDir() || e.Name() == "go.mod" {
				continue
			}
			if d, err := describe(dir, e.Name()); err == nil {
				r.Desc = append(r.Desc, d)
			}
		}
	}
	for _, l := range [][]string{r.GoFiles, r.JSFiles, r.Ignored, r.Invalid, r.Cgo, r.Test, r.Desc} {
		sort.Strings(l)
	}
	if j.Std != "" {
		r.Dir = dir
	}
	return r
}

func main() {
	os.Setenv("GOPHERJS_SKIP_VERSION_CHECK", "true")
	gopherjspkg.RegisterFS(http.FS(os.DirFS(repo())))
	if len(os.Args) < 2 {
		os.Exit(2)
	}
	switch os.Args[1] {
	case "facts":
		e := gbuild.DefaultEnv()
		f := gbuild.VerifGoCtx(e)
		sg, sa := gbuild.VerifStdTweak(e, "math", "")
		ug, ua := gbuild.VerifStdTweak(e, "example.com/user/pkg", "")
		json.NewEncoder(os.Stdout).Encode(map[string]interface{}{
			"facts": f, "std_goos": sg, "std_goarch": sa, "user_goos": ug, "user_goarch": ua,
		})
	case "ctxtags": // one comma-separated user tag list per line ("-" = none) -> the BuildTags goCtx configures
		sc := bufio.NewScanner(os.Stdin)
		for sc.Scan() {
			var tags []string
			if t := strings.TrimSpace(sc.Text()); t != "-" && t != "" {
				tags = strings.Split(t, ",")
			}
			e := gbuild.DefaultEnv()
			e.BuildTags = tags
			f := gbuild.VerifGoCtx(e)
			out := strings.Join(f.BuildTags, ",")
			if out == "" {
				out = "-"
			}
			fmt.Println(out + " rel=" + strconv.Itoa(len(f.ReleaseTags)) + " cgo=" + strconv.FormatBool(f.CgoEnabled) + " " + f.GOOS + "/" + f.GOARCH + "/" + f.Compiler)
		}
	case "select":
		scratch, _ := os.MkdirTemp(os.Getenv("VERIF_SCRATCH"), "gvc18-")
		defer os.RemoveAll(scratch)
		sc := bufio.NewScanner(os.Stdin)
		sc.Buffer(make([]byte, 1<<20), 1<<26)
		enc := json.NewEncoder(os.Stdout)
		for sc.Scan() {
			if strings.TrimSpace(sc.Text()) == "" {
				continue
			}
			var j job
			if err := json.Unmarshal(sc.Bytes(), &j); err != nil {
				fmt.Fprintln(os.Stderr, "bad job:", err)
				os.Exit(2)
			}
			enc.Encode(runJob(j, scratch))
		}
	default:
		os.Exit(2)
	}
}
