package main

import (
	"encoding/json"
	"fmt"
	"os"
	"path/filepath"
	"strings"
	"sync"
	"time"

	"gvh/internal/gojs"
)

// progJob: one program to compile with GopherJS (possibly several variants), run under node
// and natively. Read as JSON lines on stdin; one JSON result line per job on stdout.
type progJob struct {
	ID       string            `json:"id"`
	Files    map[string]string `json:"files"`
	Variants []string          `json:"variants"` // "plain", "minify", "allalive", "minify+allalive"
	Native   bool              `json:"native"`
	Env      []string          `json:"env"`
	Tags     []string          `json:"tags"`
	Timeout  float64           `json:"timeout"`
	KeepJS   bool              `json:"keep_js"`
}

type runOut struct {
	Stdout string `json:"stdout"`
	Stderr string `json:"stderr"`
	Class  string `json:"class"`
	Exit   int    `json:"exit"`
	Err    string `json:"err,omitempty"`
	JSLen  int    `json:"js_len,omitempty"`
	JS     string `json:"js,omitempty"`
}

type progResult struct {
	ID      string            `json:"id"`
	Runs    map[string]runOut `json:"runs"`
	Elapsed float64           `json:"elapsed"`
}

func clip(s string) string {
	if len(s) > 200000 {
		return s[:200000] + "...<clipped>"
	}
	return s
}

func runProg(j progJob, scratch string) progResult {
	t0 := time.Now()
	res := progResult{ID: j.ID, Runs: map[string]runOut{}}
	dir := filepath.Join(scratch, "p"+sanitize(j.ID))
	defer os.RemoveAll(dir)
	if err := gojs.WriteModule(dir, "gvprog", j.Files); err != nil {
		res.Runs["setup"] = runOut{Err: err.Error()}
		return res
	}
	to := time.Duration(j.Timeout * float64(time.Second))
	if to == 0 {
		to = 20 * time.Second
	}
	if len(j.Variants) == 0 {
		j.Variants = []string{"plain"}
	}
	for _, v := range j.Variants {
		o := gojs.Options{Tags: j.Tags}
		for _, f := range strings.Split(v, "+") {
			switch f {
			case "minify":
				o.Minify = true
			case "allalive":
				o.AllAlive = true
			}
		}
		c := gojs.Compile(dir, o)
		if c.Err != nil {
			res.Runs[v] = runOut{Err: c.Err.Error(), Class: "compile-error"}
			continue
		}
		jsPath := filepath.Join(dir, "out_"+sanitize(v)+".js")
		if err := os.WriteFile(jsPath, c.JS, 0o644); err != nil {
			res.Runs[v] = runOut{Err: err.Error()}
			continue
		}
		r := gojs.RunNode(jsPath, to, j.Env...)
		ro := runOut{Stdout: clip(r.Stdout), Stderr: clip(r.Stderr), Class: r.Class(), Exit: r.Exit, JSLen: len(c.JS)}
		if j.KeepJS {
			ro.JS = string(c.JS)
		}
		res.Runs[v] = ro
	}
	if j.Native {
		bin := filepath.Join(dir, "native.bin")
		if err := gojs.BuildNative(dir, bin); err != nil {
			res.Runs["native"] = runOut{Err: err.Error(), Class: "compile-error"}
		} else {
			r := gojs.RunNative(bin, to, j.Env...)
			res.Runs["native"] = runOut{Stdout: clip(r.Stdout), Stderr: clip(r.Stderr), Class: r.Class(), Exit: r.Exit}
		}
	}
	res.Elapsed = time.Since(t0).Seconds()
	return res
}

func sanitize(s string) string {
	return strings.Map(func(r rune) rune {
		if r >= 'a' && r <= 'z' || r >= 'A' && r <= 'Z' || r >= '0' && r <= '9' || r == '_' {
			return r
		}
		return '_'
	}, s)
}

func init() {
	// gvh prog [-j N]   (JSON jobs on stdin, JSON results on stdout, same order)
	commands["prog"] = func(args []string) int {
		par := 8
		for i := 0; i < len(args); i++ {
			if args[i] == "-j" && i+1 < len(args) {
				fmt.Sscanf(args[i+1], "%d", &par)
				i++
			}
		}
		scratch, err := os.MkdirTemp(os.Getenv("VERIF_SCRATCH"), "gvprog-")
		if err != nil {
			fmt.Fprintln(os.Stderr, err)
			return 2
		}
		defer os.RemoveAll(scratch)
		dec := json.NewDecoder(os.Stdin)
		var jobs []progJob
		for dec.More() {
			var j progJob
			if err := dec.Decode(&j); err != nil {
				fmt.Fprintln(os.Stderr, "bad job:", err)
				return 2
			}
			jobs = append(jobs, j)
		}
		results := make([]progResult, len(jobs))
		var wg sync.WaitGroup
		sem := make(chan struct{}, par)
		for i := range jobs {
			wg.Add(1)
			sem <- struct{}{}
			go func(i int) {
				defer wg.Done()
				defer func() { <-sem }()
				results[i] = runProg(jobs[i], scratch)
			}(i)
		}
		wg.Wait()
		enc := json.NewEncoder(os.Stdout)
		for _, r := range results {
			enc.Encode(r)
		}
		return 0
	}
}
