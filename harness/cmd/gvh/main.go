// gvh — implementation-side harness of /verif: runs the real GopherJS code from /repo's
// working tree on operation lines or generated programs. One subcommand per tie.
package main

import (
	"fmt"
	"os"
)

type cmdFn func(args []string) int

var commands = map[string]cmdFn{}

func main() {
	if len(os.Args) < 2 {
		fmt.Fprintln(os.Stderr, "usage: gvh <command> [args]")
		os.Exit(2)
	}
	c, ok := commands[os.Args[1]]
	if !ok {
		fmt.Fprintf(os.Stderr, "gvh: unknown command %q\n", os.Args[1])
		os.Exit(2)
	}
	os.Exit(c(os.Args[2:]))
}
