// gvh_c02 — implementation side of property C02 (suspend/resume is invisible).
// For each job (JSON line on stdin): compile program P (no yields) and P' (yields inserted) with the real
// GopherJS pipeline from the repo's working tree; run P once and P' once per schedule under Node (the schedule
// is passed in the environment variable GV_SCHED, so ONE compiled artefact serves all schedules); build and run
// P' natively; report Decl.Blocking and the emitted JS (FuncDeclCode) of every function declaration of the main
// package of both artefacts. One JSON result line per job on stdout, same order.
package main

import (
	"encoding/json"
	"fmt"
	"os"
	"os/exec"
	"path/filepath"
	"strings"
	"sync"
	"sync/atomic"
	"time"

	"gvh/internal/gojs"
)

type job struct {
	ID        string            `json:"id"`
	P         map[string]string `json:"p"`
	Q         map[string]string `json:"q"`
	Schedules []string          `json:"schedules"`
	Native    []string          `json:"native"` // schedules to run natively (P')
	Timeout   float64           `json:"timeout"`
	// Mod: GOPATH mode only (process started with GOPATH=<scratch> GO111MODULE=off, needed for programs with more than
	// one user package): P is written to $GOPATH/src/<Mod>p, P' to $GOPATH/src/<Mod>q; the sources import their library
	// package as "<Mod>p/lib" / "<Mod>q/lib".
	Mod string `json:"mod"`
}

type runOut struct {
	Stdout string `json:"stdout"`
	Stderr string `json:"stderr"`
	Class  string `json:"class"`
	Exit   int    `json:"exit"`
	Err    string `json:"err,omitempty"`
}

type declOut struct {
	Name     string `json:"name"`
	Blocking bool   `json:"blocking"`
	JS       string `json:"js"`
}

type result struct {
	ID      string    `json:"id"`
	P       runOut    `json:"p"`
	Q       []runOut  `json:"q"`
	Native  []runOut  `json:"native"`
	PDecls  []declOut `json:"p_decls"`
	QDecls  []declOut `json:"q_decls"`
	Other   map[string]bool `json:"other_blocking"` // Decl.Blocking of selected functions of other packages
	Elapsed float64   `json:"elapsed"`
}

func clip(s string) string {
	if len(s) > 400000 {
		return s[:400000] + "...<clipped>"
	}
	return s
}

func conv(r gojs.RunResult) runOut {
	return runOut{Stdout: clip(r.Stdout), Stderr: clip(r.Stderr), Class: r.Class(), Exit: r.Exit}
}

// gopathMode reports whether this process resolves user packages below $GOPATH/src.
func gopathMode() string {
	gp := os.Getenv("GOPATH")
	if gp == "" || os.Getenv("GO111MODULE") != "off" || strings.Contains(gp, string(os.PathListSeparator)) {
		return ""
	}
	return gp
}

// buildNativeGopath builds natively in GOPATH mode with the language version GopherJS implements (loop variables are
// per loop, not per iteration).
func buildNativeGopath(dir, out string) error {
	cmd := exec.Command("go", "build", "-gcflags=-lang=go1.20", "-o", out, ".")
	cmd.Dir = dir
	cmd.Env = append(os.Environ(), "GOFLAGS=", "GOPROXY=off", "GOSUMDB=off", "GOTOOLCHAIN=local", "CGO_ENABLED=0", "GOOS=", "GOARCH=",
		"GO111MODULE=off")
	b, err := cmd.CombinedOutput()
	if err != nil {
		return fmt.Errorf("native build: %v: %s", err, b)
	}
	return nil
}

func compile(dir string, keep bool) (string, []declOut, map[string]bool, error) {
	c := gojs.Compile(dir, gojs.Options{})
	if c.Err != nil {
		return "", nil, nil, c.Err
	}
	jsPath := filepath.Join(dir, "out.js")
	if err := os.WriteFile(jsPath, c.JS, 0o644); err != nil {
		return "", nil, nil, err
	}
	var decls []declOut
	other := map[string]bool{}
	for _, a := range c.Archives {
		for _, d := range a.Declarations {
			if len(d.FuncDeclCode) == 0 {
				continue
			}
			if a.ImportPath == "." || a.Name == "main" || strings.HasSuffix(a.ImportPath, "/lib") {
				do := declOut{Name: d.FullName, Blocking: d.Blocking}
				if keep {
					do.JS = string(d.FuncDeclCode)
				}
				decls = append(decls, do)
			} else if a.ImportPath == "runtime" && strings.HasSuffix(d.FullName, ".Gosched") {
				other[d.FullName] = d.Blocking
			}
		}
	}
	return jsPath, decls, other, nil
}

func runJob(j job, scratch string) result {
	t0 := time.Now()
	res := result{ID: j.ID}
	to := time.Duration(j.Timeout * float64(time.Second))
	if to == 0 {
		to = 20 * time.Second
	}
	dirP := filepath.Join(scratch, "p_"+j.ID)
	dirQ := filepath.Join(scratch, "q_"+j.ID)
	gp := gopathMode()
	if j.Mod != "" {
		if gp == "" {
			res.Q = []runOut{{Err: "job with `mod` needs GOPATH=<scratch> GO111MODULE=off", Class: "setup-error"}}
			return res
		}
		dirP = filepath.Join(gp, "src", j.Mod+"p")
		dirQ = filepath.Join(gp, "src", j.Mod+"q")
	}
	defer os.RemoveAll(dirP)
	defer os.RemoveAll(dirQ)
	if j.P != nil {
		if err := gojs.WriteModule(dirP, "gvprog", j.P); err != nil {
			res.P = runOut{Err: err.Error(), Class: "setup-error"}
		} else if js, decls, _, err := compile(dirP, true); err != nil {
			res.P = runOut{Err: err.Error(), Class: "compile-error"}
		} else {
			res.PDecls = decls
			r := gojs.RunNode(js, to)
			if r.TimedOut {
				r = gojs.RunNode(js, 4*to)
			}
			res.P = conv(r)
		}
	}
	if err := gojs.WriteModule(dirQ, "gvprog", j.Q); err != nil {
		res.Q = []runOut{{Err: err.Error(), Class: "setup-error"}}
		return res
	}
	js, decls, other, err := compile(dirQ, true)
	if err != nil {
		res.Q = []runOut{{Err: err.Error(), Class: "compile-error"}}
	} else {
		res.QDecls = decls
		res.Other = other
		res.Q = make([]runOut, len(j.Schedules))
		var hangs int32
		var wg sync.WaitGroup
		sem := make(chan struct{}, 4)
		for i, s := range j.Schedules {
			wg.Add(1)
			sem <- struct{}{}
			go func(i int, s string) {
				defer wg.Done()
				defer func() { <-sem }()
				r := gojs.RunNode(js, to, "GV_SCHED="+s)
				if r.TimedOut && atomic.LoadInt32(&hangs) < 2 {
					// a loaded machine is not a property failure: re-run with a much longer limit; once two
					// runs of this artefact exceeded even that, the program hangs and further retries are pointless
					r = gojs.RunNode(js, 4*to, "GV_SCHED="+s)
					if r.TimedOut {
						atomic.AddInt32(&hangs, 1)
					}
				}
				res.Q[i] = conv(r)
			}(i, s)
		}
		wg.Wait()
	}
	if len(j.Native) > 0 {
		bin := filepath.Join(dirQ, "native.bin")
		build := gojs.BuildNative
		if j.Mod != "" {
			build = buildNativeGopath
		}
		if err := build(dirQ, bin); err != nil {
			res.Native = []runOut{{Err: err.Error(), Class: "compile-error"}}
		} else {
			for _, s := range j.Native {
				r := gojs.RunNative(bin, to, "GV_SCHED="+s)
				if r.TimedOut {
					r = gojs.RunNative(bin, 4*to, "GV_SCHED="+s)
				}
				res.Native = append(res.Native, conv(r))
			}
		}
	}
	res.Elapsed = time.Since(t0).Seconds()
	return res
}

func main() {
	par := 6
	for i := 1; i < len(os.Args); i++ {
		if os.Args[i] == "-j" && i+1 < len(os.Args) {
			fmt.Sscanf(os.Args[i+1], "%d", &par)
			i++
		}
	}
	scratch, err := os.MkdirTemp(os.Getenv("VERIF_SCRATCH"), "gvc02-")
	if err != nil {
		fmt.Fprintln(os.Stderr, err)
		os.Exit(2)
	}
	defer os.RemoveAll(scratch)
	dec := json.NewDecoder(os.Stdin)
	var jobs []job
	for dec.More() {
		var j job
		if err := dec.Decode(&j); err != nil {
			fmt.Fprintln(os.Stderr, "bad job:", err)
			os.RemoveAll(scratch)
			os.Exit(2)
		}
		jobs = append(jobs, j)
	}
	results := make([]result, len(jobs))
	var wg sync.WaitGroup
	sem := make(chan struct{}, par)
	for i := range jobs {
		wg.Add(1)
		sem <- struct{}{}
		go func(i int) {
			defer wg.Done()
			defer func() { <-sem }()
			results[i] = runJob(jobs[i], scratch)
		}(i)
	}
	wg.Wait()
	enc := json.NewEncoder(os.Stdout)
	for _, r := range results {
		enc.Encode(r)
	}
}
