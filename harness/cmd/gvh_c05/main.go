// gvh_c05 — implementation side of property C05 (dead-code elimination never changes behaviour).
//
//	gvh_c05 run [-j N]    JSON jobs on stdin ({id, files, native, timeout}), one JSON result per job on stdout.
//
// For every job the program is compiled ONCE with the real GopherJS pipeline; from the same archives
//   - the DCE info of every declaration is extracted (Dce().String()) and rendered as a Lean driver op line,
//   - the REAL selector is run (verif hook compiler.VerifDceSelection),
//   - the program is linked normally, then with every declaration forced alive, and both are run under Node,
//   - the emitted artefact is scanned for references to eliminated declarations,
//   - optionally the program is built and run natively.
package main

import (
	"encoding/json"
	"fmt"
	"os"
	"path/filepath"
	"strings"
	"sync"
	"time"

	"gvh/internal/c05"
	"gvh/internal/gojs"
)

type job struct {
	ID      string            `json:"id"`
	Mod     string            `json:"mod"` // import path of the main package below $GOPATH/src (unique per job)
	Files   map[string]string `json:"files"`
	Native  bool              `json:"native"`
	Timeout float64           `json:"timeout"`
	Dump    bool              `json:"dump"` // include the full decl table in the result
}

type runOut struct {
	Stdout string `json:"stdout"`
	Stderr string `json:"stderr"`
	Class  string `json:"class"`
	Exit   int    `json:"exit"`
	Err    string `json:"err,omitempty"`
	JSLen  int    `json:"js_len,omitempty"`
}

type declOut struct {
	Pkg      string `json:"pkg"`
	FullName string `json:"name"`
	Raw      string `json:"dce"`
	Link     bool   `json:"link"`
	Selected bool   `json:"selected"`
}

type result struct {
	ID          string            `json:"id"`
	Err         string            `json:"err,omitempty"`
	NDecls      int               `json:"ndecls"`
	NSelected   int               `json:"nselected"`
	NMain       int               `json:"nmain"`          // decls of non-runtime user packages
	NMainDead   int               `json:"nmain_dead"`     // of which eliminated
	NTwoFilter  int               `json:"ntwofilter"`     // decls with both filters
	NLink       int               `json:"nlink"`          // go:linkname implementations
	ModelLine   string            `json:"model_line"`
	Selected    string            `json:"selected_line"`
	EmissionBad []string          `json:"emission_bad"`
	ClosureBad  []string          `json:"closure_bad"`
	ClosureRefs int               `json:"closure_refs"`
	MethodRefs  map[string]int    `json:"method_refs"`
	Runs        map[string]runOut `json:"runs"`
	UserDecls   []declOut         `json:"user_decls,omitempty"`
	Elapsed     float64           `json:"elapsed"`
	Phases      map[string]float64 `json:"phases"`
}

func clip(s string) string {
	if len(s) > 200000 {
		return s[:200000] + "...<clipped>"
	}
	return s
}

func sanitize(s string) string {
	return strings.Map(func(r rune) rune {
		if r >= 'a' && r <= 'z' || r >= 'A' && r <= 'Z' || r >= '0' && r <= '9' || r == '_' {
			return r
		}
		return '_'
	}, s)
}

func isUser(pkg string) bool { return pkg == "." || strings.HasPrefix(pkg, "gv") }

func runJob(j job, scratch string) (res result) {
	t0 := time.Now()
	res = result{ID: j.ID, Runs: map[string]runOut{}, Phases: map[string]float64{}}
	defer func() { res.Elapsed = time.Since(t0).Seconds() }()
	last := t0
	phase := func(name string) {
		now := time.Now()
		res.Phases[name] += now.Sub(last).Seconds()
		last = now
	}
	if j.Mod == "" {
		j.Mod = "gvp" + sanitize(j.ID)
	}
	dir := filepath.Join(scratch, "src", j.Mod)
	defer os.RemoveAll(dir)
	if err := gojs.WriteModule(dir, j.Mod, j.Files); err != nil {
		res.Err = "setup: " + err.Error()
		return
	}
	to := time.Duration(j.Timeout * float64(time.Second))
	if to == 0 {
		to = 20 * time.Second
	}
	phase("setup")
	b, err := c05.Build(dir, nil)
	phase("build")
	if err != nil {
		res.Err = "compile-error: " + err.Error()
		res.Runs["plain"] = runOut{Err: err.Error(), Class: "compile-error"}
		res.Runs["allalive"] = runOut{Err: err.Error(), Class: "compile-error"}
	} else {
		res.NDecls = len(b.Decls)
		for _, d := range b.Decls {
			if d.Selected {
				res.NSelected++
			}
			if d.Obj != "" && d.Meth != "" {
				res.NTwoFilter++
			}
			if d.Link {
				res.NLink++
			}
			if isUser(d.Pkg) {
				res.NMain++
				if !d.Selected {
					res.NMainDead++
				}
				if j.Dump {
					res.UserDecls = append(res.UserDecls, declOut{d.Pkg, d.FullName, d.Raw, d.Link, d.Selected})
				}
			}
		}
		res.ModelLine = c05.ModelLine(b.Decls, "fwd", "lifo")
		res.Selected = c05.SelectedLine(b.Decls)
		res.ClosureBad, res.ClosureRefs = b.ClosureScan()
		mbad, mrefs := b.MethodRefScan()
		res.ClosureBad = append(res.ClosureBad, mbad...)
		res.MethodRefs = mrefs
		phase("scan")

		link := func(variant string) {
			js, err := b.Link()
			if err != nil {
				res.Runs[variant] = runOut{Err: err.Error(), Class: "compile-error"}
				return
			}
			phase("link")
			if variant == "plain" {
				res.EmissionBad = b.EmissionMatches(js)
				phase("emission")
			}
			jsPath := filepath.Join(dir, "out_"+variant+".js")
			if err := os.WriteFile(jsPath, js, 0o644); err != nil {
				res.Runs[variant] = runOut{Err: err.Error()}
				return
			}
			r := gojs.RunNode(jsPath, to)
			phase("node")
			res.Runs[variant] = runOut{Stdout: clip(r.Stdout), Stderr: clip(r.Stderr), Class: r.Class(), Exit: r.Exit, JSLen: len(js)}
		}
		link("plain")
		b.SetAllAlive()
		link("allalive")
	}
	if j.Native {
		bin := filepath.Join(dir, "native.bin")
		if err := c05.BuildNative(dir, bin); err != nil {
			res.Runs["native"] = runOut{Err: err.Error(), Class: "compile-error"}
		} else {
			r := gojs.RunNative(bin, to)
			res.Runs["native"] = runOut{Stdout: clip(r.Stdout), Stderr: clip(r.Stderr), Class: r.Class(), Exit: r.Exit}
		}
		phase("native")
	}
	return
}

func main() {
	if len(os.Args) < 2 || os.Args[1] != "run" {
		fmt.Fprintln(os.Stderr, "usage: gvh_c05 run [-j N]")
		os.Exit(2)
	}
	par := 8
	args := os.Args[2:]
	for i := 0; i < len(args); i++ {
		if args[i] == "-j" && i+1 < len(args) {
			fmt.Sscanf(args[i+1], "%d", &par)
			i++
		}
	}
	// Programs with more than one package are resolved in GOPATH mode: go/build's module mode runs `go list` in the
	// process working directory, which cannot differ between programs compiled concurrently in one process.
	// go/build reads GOPATH at package initialisation, so the caller must start this process with
	// GOPATH=<scratch dir> GO111MODULE=off.
	scratch := os.Getenv("GOPATH")
	if scratch == "" || os.Getenv("GO111MODULE") != "off" || strings.Contains(scratch, string(os.PathListSeparator)) {
		fmt.Fprintln(os.Stderr, "gvh_c05: start with GOPATH=<scratch dir> GO111MODULE=off")
		os.Exit(2)
	}
	if err := os.MkdirAll(filepath.Join(scratch, "src"), 0o755); err != nil {
		fmt.Fprintln(os.Stderr, err)
		os.Exit(2)
	}
	dec := json.NewDecoder(os.Stdin)
	var jobs []job
	for dec.More() {
		var j job
		if err := dec.Decode(&j); err != nil {
			fmt.Fprintln(os.Stderr, "bad job:", err)
			os.Exit(2)
		}
		jobs = append(jobs, j)
	}
	results := make([]result, len(jobs))
	var wg sync.WaitGroup
	sem := make(chan struct{}, par)
	for i := range jobs {
		wg.Add(1)
		sem <- struct{}{}
		go func(i int) {
			defer wg.Done()
			defer func() { <-sem }()
			results[i] = runJob(jobs[i], scratch)
		}(i)
	}
	wg.Wait()
	enc := json.NewEncoder(os.Stdout)
	enc.SetEscapeHTML(false)
	for _, r := range results {
		enc.Encode(r)
	}
}
