// gvh_c14 — renders byte strings (hex, one per line, "-" = empty) with the real encodeString of the
// repo and prints the literal text as hex.
package main

import (
	"bufio"
	"encoding/hex"
	"fmt"
	"os"

	"github.com/gopherjs/gopherjs/compiler"
)

func main() {
	sc := bufio.NewScanner(os.Stdin)
	sc.Buffer(make([]byte, 1<<20), 1<<26)
	w := bufio.NewWriter(os.Stdout)
	defer w.Flush()
	for sc.Scan() {
		line := sc.Text()
		var b []byte
		if line != "-" {
			var err error
			b, err = hex.DecodeString(line)
			if err != nil {
				fmt.Fprintln(w, "bad-op")
				continue
			}
		}
		fmt.Fprintln(w, hex.EncodeToString([]byte(compiler.VerifEncodeString(string(b)))))
	}
}
