package main

// caller: the real parseAndAugment (file selection + parsing + augmentation, build.go:170-195) on the natives
// packages with a synthetic original on disk, compared with the hook sequence (build.VerifC12Augment) that
// the other ties use, on the same files. Catches changes made in parseAndAugment itself.

import (
	"bytes"
	"encoding/json"
	"go/ast"
	"go/parser"
	"go/printer"
	"go/token"
	"net/http"
	"os"
	"path/filepath"
	"sort"
	"strings"

	"github.com/gopherjs/gopherjs/build"
	"github.com/gopherjs/gopherjs/compiler/gopherjspkg"
)

func printFiles(fset *token.FileSet, files []*ast.File) []string {
	var out []string
	for _, f := range files {
		var b bytes.Buffer
		printer.Fprint(&b, fset, f)
		out = append(out, filepath.Base(fset.Position(f.Package).Filename)+"\n"+b.String())
	}
	return out
}

func caller(repo, root, tmp string) int {
	gopherjspkg.RegisterFS(http.FS(os.DirFS(repo)))
	var dirs []string
	filepath.Walk(root, func(p string, fi os.FileInfo, err error) error {
		if err == nil && fi.IsDir() {
			dirs = append(dirs, p)
		}
		return nil
	})
	sort.Strings(dirs)
	enc := json.NewEncoder(os.Stdout)
	xctx := build.NewBuildContext("", nil)
	for n, dir := range dirs {
		matches, _ := filepath.Glob(filepath.Join(dir, "*.go"))
		var lib []string
		for _, m := range matches {
			if !strings.HasSuffix(m, "_test.go") {
				lib = append(lib, m)
			}
		}
		if len(lib) == 0 {
			continue
		}
		sort.Strings(lib)
		ip, _ := filepath.Rel(root, dir)
		ip = filepath.ToSlash(ip)
		fset0 := token.NewFileSet()
		var all []*ast.File
		for _, m := range lib {
			if f, err := parser.ParseFile(fset0, m, nil, parser.ParseComments); err == nil {
				all = append(all, f)
			}
		}
		if len(all) == 0 {
			continue
		}
		orig := synthOriginal(fset0, all)[0]
		odir := filepath.Join(tmp, "p"+string(rune('a'+n%26))+filepath.Base(dir))
		os.MkdirAll(odir, 0o755)
		os.WriteFile(filepath.Join(odir, "orig.go"), []byte(orig), 0o644)

		res := map[string]interface{}{"ip": ip}
		fsetA := token.NewFileSet()
		filesA, err := build.VerifC12ParseAndAugment(xctx, ip, odir, []string{"orig.go"}, false, fsetA)
		if err != nil {
			res["error"] = err.Error()
			enc.Encode(res)
			continue
		}
		a := printFiles(fsetA, filesA)

		fsetB := token.NewFileSet()
		var ovs, origs []*ast.File
		bad := false
		for _, f := range filesA {
			name := filepath.Base(fsetA.Position(f.Package).Filename)
			if strings.HasPrefix(name, "gopherjs__") {
				src, err := os.ReadFile(filepath.Join(dir, strings.TrimPrefix(name, "gopherjs__")))
				if err != nil {
					bad = true
					break
				}
				pf, err := parser.ParseFile(fsetB, filepath.Join(odir, name), src, parser.ParseComments)
				if err != nil {
					bad = true
					break
				}
				ovs = append(ovs, pf)
			}
		}
		if bad {
			res["error"] = "cannot re-read overlay files"
			enc.Encode(res)
			continue
		}
		pf, err := parser.ParseFile(fsetB, filepath.Join(odir, "orig.go"), orig, parser.ParseComments)
		if err != nil {
			res["error"] = "synthetic original does not parse: " + err.Error()
			enc.Encode(res)
			continue
		}
		origs = append(origs, pf)
		merged, _ := build.VerifC12Augment(ip, ovs, origs)
		b := printFiles(fsetB, merged)
		res["overlays"] = len(ovs)
		res["same"] = strings.Join(a, "\n====\n") == strings.Join(b, "\n====\n")
		if res["same"] == false {
			res["a"] = a
			res["b"] = b
		}
		hasInit := strings.Contains(strings.Join(b, "\n"), "func init()") && len(ovs) > 0
		res["has_init"] = hasInit
		enc.Encode(res)
	}
	return 0
}
