package main

// caller: the real parseAndAugment (file selection + parsing + augmentation, build.go:170-195) on the natives
// packages with a synthetic original on disk, compared with the hook sequence (build.VerifC12Augment) that
// the other ties use, on the same files. Catches changes made in parseAndAugment itself.

import (
	"bytes"
	"encoding/json"
	"go/ast"
	"go/parser"
	"go/printer"
	"go/token"
	"net/http"
	"os"
	"path/filepath"
	"sort"
	"strings"

	"github.com/gopherjs/gopherjs/build"
	"github.com/gopherjs/gopherjs/compiler/gopherjspkg"
)

func printFiles(fset *token.FileSet, files []*ast.File) []string {
	var out []string
	for _, f := range files {
		var b bytes.Buffer
		printer.Fprint(&b, fset, f)
		out = append(out, filepath.Base(fset.Position(f.Package).Filename)+"\n"+b.String())
	}
	return out
}

func caller(repo, root, tmp string) int {
	gopherjspkg.RegisterFS(http.FS(os.DirFS(repo)))
	var dirs []string
	filepath.Walk(root, func(p string, fi os.FileInfo, err error) error {
		if err == nil && fi.IsDir() {
			dirs = append(dirs, p)
		}
		return nil
	})
	sort.Strings(dirs)
	enc := json.NewEncoder(os.Stdout)
	xctx := build.NewBuildContext("", nil)
	for n, dir := range dirs {
		matches, _ := filepath.Glob(filepath.Join(dir, "*.go"))
		var lib []string
		for _, m := range matches {
			if !strings.HasSuffix(m, "_test.go") {
				lib = append(lib, m)
			}
		}
		if len(lib) == 0 {
			continue
		}
		sort.Strings(lib)
		ip, _ := filepath.Rel(root, dir)
		ip = filepath.ToSlash(ip)
		fset0 := token.NewFileSet()
		var all []*ast.File
		for _, m := range lib {
			if f, err := parser.ParseFile(fset0, m, nil, parser.ParseComments); err == nil {
				all = append(all, f)
			}
		}
		if len(all) == 0 {
			continue
		}
		orig := synthOriginal(fset0, all)[0]
		odir := filepath.Join(tmp, "p"+string(rune('a'+n%26))+filepath.Base(dir))
		os.MkdirAll(odir, 0o755)
		os.WriteFile(filepath.Join(odir, "orig.go"), []byte(orig), 0o644)

		res := seqCompare(xctx, dir, ip, odir, []string{"orig.go"})
		enc.Encode(res)
	}
	return 0
}

// seqCompare runs the real parseAndAugment for import path ip (overlays = natives of ip, found in ovDir; originals =
// the given files of odir) and the hook sequence on the same files, and compares the printed results.
func seqCompare(xctx build.XContext, ovDir, ip, odir string, origFiles []string) map[string]interface{} {
	res := map[string]interface{}{"ip": ip}
	fsetA := token.NewFileSet()
	filesA, err := build.VerifC12ParseAndAugment(xctx, ip, odir, origFiles, false, fsetA)
	if err != nil {
		res["error"] = err.Error()
		return res
	}
	a := printFiles(fsetA, filesA)
	// property-level view of the REAL result: type-check and declared names (the only tie in which gopherjs parses itself)
	tcA, infoA := typecheck(fsetA, filesA)
	res["tc_after"] = tcA
	var sum [][]string
	for _, f := range filesA {
		sum = append(sum, summary(fsetA, f, infoA, infoA))
	}
	res["summary"] = sum
	fsetB := token.NewFileSet()
	var ovs, origs []*ast.File
	for _, f := range filesA {
		name := filepath.Base(fsetA.Position(f.Package).Filename)
		if strings.HasPrefix(name, "gopherjs__") {
			src, err := os.ReadFile(filepath.Join(ovDir, strings.TrimPrefix(name, "gopherjs__")))
			if err != nil {
				res["error"] = "cannot re-read overlay file " + name
				return res
			}
			pf, err := parser.ParseFile(fsetB, filepath.Join(odir, name), src, parser.ParseComments)
			if err != nil {
				res["error"] = "overlay does not parse: " + err.Error()
				return res
			}
			ovs = append(ovs, pf)
		}
	}
	for _, of := range origFiles {
		pf, err := parser.ParseFile(fsetB, filepath.Join(odir, of), nil, parser.ParseComments)
		if err != nil {
			res["error"] = "original does not parse: " + err.Error()
			return res
		}
		origs = append(origs, pf)
	}
	merged, _ := build.VerifC12Augment(ip, ovs, origs)
	b := printFiles(fsetB, merged)
	res["overlays"] = len(ovs)
	res["same"] = strings.Join(a, "\n====\n") == strings.Join(b, "\n====\n")
	res["a"] = a
	if res["same"] == false {
		res["b"] = b
	}
	return res
}

// callergen: the same comparison for generated pairs whose overlays were written into the natives tree of the
// repo copy this binary was built against. stdin: JSON lines {"ip","dir","files"}.
func callergen(repo string) int {
	gopherjspkg.RegisterFS(http.FS(os.DirFS(repo)))
	xctx := build.NewBuildContext("", nil)
	dec := json.NewDecoder(os.Stdin)
	enc := json.NewEncoder(os.Stdout)
	for dec.More() {
		var req struct {
			IP    string   `json:"ip"`
			Dir   string   `json:"dir"`
			Files []string `json:"files"`
		}
		if err := dec.Decode(&req); err != nil {
			return 2
		}
		enc.Encode(seqCompare(xctx, filepath.Join(repo, "compiler", "natives", "src", filepath.FromSlash(req.IP)), req.IP, req.Dir, req.Files))
	}
	return 0
}
