package main

// Projection of real *ast.File values to the token encoding understood by the Lean driver
// (lean/GV/Driver/C12.lean) and canonical printing of merge results.

import (
	"fmt"
	"go/ast"
	"go/token"
	"go/types"
	"regexp"
	"strconv"
	"strings"
)

// ids records the identity (pointer) of every node the merge treats as opaque.
type ids struct {
	next     int
	fn       map[*ast.FuncDecl]int
	sigOf    map[*ast.FieldList]int // Type.Params of a FuncDecl -> signature id
	sigParts map[int][4]*ast.FieldList
	typ      map[*ast.TypeSpec]int
	name     map[*ast.Ident]int
	val      map[ast.Expr]int
	imp      map[*ast.ImportSpec]int
}

func newIDs() *ids {
	return &ids{next: 1, fn: map[*ast.FuncDecl]int{}, sigOf: map[*ast.FieldList]int{}, sigParts: map[int][4]*ast.FieldList{},
		typ: map[*ast.TypeSpec]int{}, name: map[*ast.Ident]int{}, val: map[ast.Expr]int{}, imp: map[*ast.ImportSpec]int{}}
}

func (x *ids) fresh() int { x.next++; return x.next - 1 }

// assign gives ids to all nodes of a freshly parsed file.
func (x *ids) assign(f *ast.File) {
	for _, d := range f.Decls {
		switch d := d.(type) {
		case *ast.FuncDecl:
			x.fn[d] = x.fresh()
			s := x.fresh()
			x.sigOf[d.Type.Params] = s
			x.sigParts[s] = [4]*ast.FieldList{d.Recv, d.Type.TypeParams, d.Type.Params, d.Type.Results}
		case *ast.GenDecl:
			for _, sp := range d.Specs {
				switch s := sp.(type) {
				case *ast.TypeSpec:
					x.typ[s] = x.fresh()
				case *ast.ImportSpec:
					x.imp[s] = x.fresh()
				case *ast.ValueSpec:
					for _, n := range s.Names {
						x.name[n] = x.fresh()
					}
					for _, v := range s.Values {
						x.val[v] = x.fresh()
					}
				}
			}
		}
	}
}

var directiveRe = regexp.MustCompile(`^\/(?:\/|\*)gopherjs:([\w-]+)`)

func dirsOf(groups ...*ast.CommentGroup) string {
	var out []string
	for _, g := range groups {
		if g == nil {
			continue
		}
		for _, c := range g.List {
			if m := directiveRe.FindStringSubmatch(c.Text); len(m) == 2 {
				out = append(out, m[1])
			}
		}
	}
	return list(out)
}

func list(l []string) string {
	if len(l) == 0 {
		return "-"
	}
	return strings.Join(l, ",")
}

func cmOf(g *ast.CommentGroup) byte {
	l, e := false, false
	for _, c := range g.List {
		if strings.HasPrefix(c.Text, "//go:linkname ") {
			l = true
		}
		if strings.HasPrefix(c.Text, "//go:embed ") {
			e = true
		}
	}
	switch {
	case l && e:
		return 'b'
	case l:
		return 'l'
	case e:
		return 'e'
	}
	return 'o'
}

func isNilNode(n ast.Node) bool {
	switch v := n.(type) {
	case nil:
		return true
	case *ast.FieldList:
		return v == nil
	case *ast.BlockStmt:
		return v == nil
	case *ast.CommentGroup:
		return v == nil
	case *ast.Ident:
		return v == nil
	}
	return false
}

// cmsIn lists the comment groups reachable by ast.Inspect below the given nodes.
func cmsIn(nodes ...ast.Node) string {
	var b []byte
	for _, n := range nodes {
		if isNilNode(n) {
			continue
		}
		ast.Inspect(n, func(m ast.Node) bool {
			if g, ok := m.(*ast.CommentGroup); ok {
				b = append(b, cmOf(g))
			}
			return true
		})
	}
	if len(b) == 0 {
		return "-"
	}
	return string(b)
}

// unresolved decides, with go/types only (the parser's ast.Object resolution is NOT consulted), whether a selector base
// resolves to no file-local object: it names an import, a universe or dot-imported object, nothing at all, or a
// package-level object declared in ANOTHER file. This is the definition of the model's `sels` input.
func (p *projector) unresolved(id *ast.Ident) bool {
	obj := p.uses[id]
	if obj == nil {
		return true
	}
	if _, ok := obj.(*types.PkgName); ok {
		return true
	}
	if obj.Pkg() == nil {
		return true
	}
	if obj.Parent() == obj.Pkg().Scope() {
		return p.fset.File(obj.Pos()) != p.fset.File(id.Pos())
	}
	return false
}

// selsIn lists the selector heads that do not resolve to a file-local object (what build.go:487-489 is meant to test).
func (p *projector) selsIn(nodes ...ast.Node) string {
	var out []string
	for _, n := range nodes {
		if isNilNode(n) {
			continue
		}
		ast.Inspect(n, func(m ast.Node) bool {
			if sel, ok := m.(*ast.SelectorExpr); ok {
				if id, ok := sel.X.(*ast.Ident); ok {
					u := p.unresolved(id)
					if u != (id.Obj == nil) && !p.resolutionNoted {
						// self-check of the definition against the parser's resolution of OUR parse (plain ParseComments)
						p.resolutionNoted = true
						p.odd = append(p.odd, "selector base "+id.Name+": go/types and parser resolution disagree")
					}
					if u {
						out = append(out, id.Name)
					}
				}
			}
			return true
		})
	}
	return list(out)
}

func recvKey(recv *ast.FieldList) string {
	if recv == nil || len(recv.List) == 0 {
		return "-"
	}
	t := recv.List[0].Type
	for {
		switch r := t.(type) {
		case *ast.IndexListExpr:
			t = r.X
		case *ast.IndexExpr:
			t = r.X
		case *ast.StarExpr:
			t = r.X
		case *ast.ParenExpr:
			return "?paren"
		case *ast.Ident:
			return r.Name
		default:
			return "?recv"
		}
	}
}

// linear recognises `a*iota + b` shapes; ok=false for anything else.
func linear(e ast.Expr) (a, b int, ok bool) {
	switch v := e.(type) {
	case *ast.ParenExpr:
		return linear(v.X)
	case *ast.BasicLit:
		if v.Kind == token.INT {
			n, err := strconv.Atoi(v.Value)
			if err == nil {
				return 0, n, true
			}
		}
	case *ast.Ident:
		if v.Name == "iota" {
			return 1, 0, true
		}
	case *ast.BinaryExpr:
		a1, b1, ok1 := linear(v.X)
		a2, b2, ok2 := linear(v.Y)
		if !ok1 || !ok2 {
			return 0, 0, false
		}
		switch v.Op {
		case token.ADD:
			return a1 + a2, b1 + b2, true
		case token.MUL:
			if a1 == 0 {
				return b1 * a2, b1 * b2, true
			}
			if a2 == 0 {
				return a1 * b2, b1 * b2, true
			}
		}
	}
	return 0, 0, false
}

type projector struct {
	uses            map[*ast.Ident]types.Object
	fset            *token.FileSet
	resolutionNoted bool
	x      *ids
	nonLin bool // some constant initialiser is outside the linear grammar
	odd    []string
}

const mixedSig = 999999

func (p *projector) sigID(d *ast.FuncDecl) int {
	s, ok := p.x.sigOf[d.Type.Params]
	if !ok {
		return mixedSig
	}
	parts := p.x.sigParts[s]
	if parts[0] != d.Recv || parts[1] != d.Type.TypeParams || parts[2] != d.Type.Params || parts[3] != d.Type.Results {
		return mixedSig
	}
	return s
}

func (p *projector) decl(d ast.Decl, out *[]string) {
	switch d := d.(type) {
	case nil:
		*out = append(*out, "N")
	case *ast.FuncDecl:
		id, ok := p.x.fn[d]
		if !ok {
			id = 0
		}
		*out = append(*out, "f", strconv.Itoa(id), d.Name.Name, dirsOf(d.Doc), cmsIn(d.Doc), strconv.Itoa(p.sigID(d)), recvKey(d.Recv),
			p.selsIn(d.Recv, d.Type.TypeParams, d.Type.Params, d.Type.Results),
			cmsIn(d.Recv, d.Type.TypeParams, d.Type.Params, d.Type.Results),
			p.selsIn(d.Body), cmsIn(d.Body))
	case *ast.GenDecl:
		tok := map[token.Token]string{token.IMPORT: "i", token.CONST: "c", token.TYPE: "t", token.VAR: "v"}[d.Tok]
		*out = append(*out, "g", tok, dirsOf(d.Doc), cmsIn(d.Doc), strconv.Itoa(len(d.Specs)))
		for _, sp := range d.Specs {
			p.spec(d.Tok, sp, out)
		}
	default:
		p.odd = append(p.odd, fmt.Sprintf("decl %T", d))
		*out = append(*out, "N")
	}
}

func (p *projector) spec(tok token.Token, sp ast.Spec, out *[]string) {
	switch s := sp.(type) {
	case nil:
		*out = append(*out, "N")
	case *ast.TypeSpec:
		*out = append(*out, "t", strconv.Itoa(p.x.typ[s]), s.Name.Name, dirsOf(s.Doc, s.Comment), p.selsIn(s), cmsIn(s))
	case *ast.ImportSpec:
		name := "-"
		if s.Name != nil {
			name = s.Name.Name
		}
		path, err := strconv.Unquote(s.Path.Value)
		if err != nil || path == "" || strings.ContainsAny(path, " ,:") {
			p.odd = append(p.odd, "import path "+s.Path.Value)
			path = "?"
		}
		*out = append(*out, "i", strconv.Itoa(p.x.imp[s]), name, path, dirsOf(s.Doc, s.Comment), cmsIn(s))
	case *ast.ValueSpec:
		var tn ast.Node
		if s.Type != nil {
			tn = s.Type
		}
		*out = append(*out, "v", dirsOf(s.Doc, s.Comment), p.selsIn(tn), cmsIn(s), strconv.Itoa(len(s.Names)))
		for _, n := range s.Names {
			if n == nil {
				*out = append(*out, "N")
			} else {
				*out = append(*out, fmt.Sprintf("%d:%s", p.x.name[n], n.Name))
			}
		}
		*out = append(*out, strconv.Itoa(len(s.Values)))
		for _, v := range s.Values {
			if v == nil {
				*out = append(*out, "N")
				continue
			}
			a, b := 0, 0
			if tok == token.CONST {
				var ok bool
				if a, b, ok = linear(v); !ok {
					p.nonLin = true
					a, b = 0, 0
				}
			}
			if cmsIn(v) != "-" {
				p.odd = append(p.odd, "comment group inside an initialiser")
			}
			*out = append(*out, fmt.Sprintf("%d:%d:%d:%s", p.x.val[v], a, b, p.selsIn(v)))
		}
	default:
		p.odd = append(p.odd, fmt.Sprintf("spec %T", s))
		*out = append(*out, "N")
	}
}

func (p *projector) file(f *ast.File, out *[]string) {
	var doc ast.Node
	if f.Doc != nil {
		doc = f.Doc
	}
	var cm []byte
	for _, g := range f.Comments {
		cm = append(cm, cmOf(g))
	}
	cms := "-"
	if len(cm) > 0 {
		cms = string(cm)
	}
	*out = append(*out, "F", cmsIn(doc), cms, strconv.Itoa(len(f.Decls)))
	for _, d := range f.Decls {
		p.decl(d, out)
	}
	// file.Imports must be the import specs of the declarations (model invariant)
	var fromDecls []*ast.ImportSpec
	for _, d := range f.Decls {
		if g, ok := d.(*ast.GenDecl); ok {
			for _, sp := range g.Specs {
				if is, ok := sp.(*ast.ImportSpec); ok {
					fromDecls = append(fromDecls, is)
				}
			}
		}
	}
	same := len(fromDecls) == len(f.Imports)
	if same {
		for i := range fromDecls {
			same = same && fromDecls[i] == f.Imports[i]
		}
	}
	if !same {
		p.odd = append(p.odd, "file.Imports differs from the import specs of the declarations")
	}
}

// entries prints the declared names of a file in the format of the Lean driver's `entries` op.
func (p *projector) entries(f *ast.File) string {
	var out []string
	for _, d := range f.Decls {
		switch d := d.(type) {
		case *ast.FuncDecl:
			key := d.Name.Name
			if rk := recvKey(d.Recv); rk != "-" {
				key = rk + "." + key
			}
			if key != "_" {
				out = append(out, fmt.Sprintf("func:%s:%d:%d", key, p.x.fn[d], p.sigID(d)))
			}
		case *ast.GenDecl:
			for _, sp := range d.Specs {
				switch s := sp.(type) {
				case *ast.TypeSpec:
					if s.Name.Name != "_" {
						out = append(out, fmt.Sprintf("type:%s:%d", s.Name.Name, p.x.typ[s]))
					}
				case *ast.ValueSpec:
					for k, n := range s.Names {
						if n.Name == "_" {
							continue
						}
						if d.Tok == token.CONST {
							out = append(out, fmt.Sprintf("const:%s:%d", n.Name, p.x.name[n]))
							continue
						}
						init := "-"
						if len(s.Names) == len(s.Values) {
							init = fmt.Sprintf("%d#0", p.x.val[s.Values[k]])
						} else if len(s.Values) == 1 {
							init = fmt.Sprintf("%d#%d", p.x.val[s.Values[0]], k)
						}
						out = append(out, fmt.Sprintf("var:%s:%d:%s", n.Name, p.x.name[n], init))
					}
				}
			}
		}
	}
	if len(out) == 0 {
		return "-"
	}
	return strings.Join(out, " ")
}

func importsLine(f *ast.File) string {
	var out []string
	for _, is := range f.Imports {
		name := "-"
		if is.Name != nil {
			name = is.Name.Name
		}
		path, _ := strconv.Unquote(is.Path.Value)
		out = append(out, name+"="+path)
	}
	return list(out)
}
