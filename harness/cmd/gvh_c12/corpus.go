package main

// corpus: the real overlays of compiler/natives/src as realistic overlay shapes, each merged against a
// synthetic original package that declares every name the overlay declares (plus names it does not).

import (
	"encoding/json"
	"fmt"
	"go/ast"
	"go/parser"
	"go/token"
	"os"
	"path/filepath"
	"sort"
	"strings"
)

func synthOriginal(fset *token.FileSet, files []*ast.File) []string {
	var b strings.Builder
	b.WriteString("package " + files[0].Name.Name + "\n\nimport (\n\t\"fake/pkga\"\n\tb \"fake/pkgb\"\n\t_ \"fake/pkgc\"\n\t\"sync\"\n\t\"unsafe\"\n)\n\n")
	var consts, vars []string
	n := 0
	seenT := map[string]bool{}
	for _, f := range files {
		for _, d := range f.Decls {
			switch d := d.(type) {
			case *ast.FuncDecl:
				n++
				recv := ""
				if d.Recv != nil && len(d.Recv.List) > 0 {
					recv = "(r " + nodeText(fset, d.Recv.List[0].Type) + ") "
				}
				use := ""
				switch n % 4 {
				case 0:
					use = "_ = pkga.X; "
				case 1:
					use = "_ = b.X; "
				case 2:
					use = "var p unsafe.Pointer; _ = p; "
				}
				fmt.Fprintf(&b, "func %s%s(x%d pkga.T) { %spanic(\"m:o%d\") }\n\n", recv, d.Name.Name, n, use, n)
			case *ast.GenDecl:
				for _, sp := range d.Specs {
					switch s := sp.(type) {
					case *ast.TypeSpec:
						if seenT[s.Name.Name] {
							continue
						}
						seenT[s.Name.Name] = true
						n++
						tp, tpu := "", ""
						if s.TypeParams != nil && len(s.TypeParams.List) > 0 {
							var ps, us []string
							for _, fl := range s.TypeParams.List {
								for _, nm := range fl.Names {
									ps = append(ps, nm.Name+" any")
									us = append(us, nm.Name)
								}
							}
							tp = "[" + strings.Join(ps, ", ") + "]"
							tpu = "[" + strings.Join(us, ", ") + "]"
						}
						fmt.Fprintf(&b, "type %s%s struct{ mu sync.Mutex }\n\nfunc (r *%s%s) origOnly%d() { _ = b.X; panic(\"m:o%d\") }\n\n",
							s.Name.Name, tp, s.Name.Name, tpu, n, n)
					case *ast.ValueSpec:
						for _, nm := range s.Names {
							if d.Tok == token.CONST {
								consts = append(consts, nm.Name)
							} else {
								vars = append(vars, nm.Name)
							}
						}
					}
				}
			}
		}
	}
	if len(consts) > 0 {
		b.WriteString("const (\n\torigFirst = iota * 2\n")
		for i, c := range consts {
			if c == "_" {
				continue
			}
			fmt.Fprintf(&b, "\t%s\n", c)
			if i%2 == 1 {
				fmt.Fprintf(&b, "\torigKeep%d\n", i)
			}
		}
		b.WriteString("\torigLast\n)\n\n")
	}
	for i := 0; i < len(vars); i++ {
		v := vars[i]
		if v == "_" {
			b.WriteString("var _ = pkga.F()\n\n")
			continue
		}
		switch i % 3 {
		case 0:
			fmt.Fprintf(&b, "var %s, origVar%d = pkga.F2()\n\n", v, i)
		case 1:
			fmt.Fprintf(&b, "var %s, origVar%d = pkga.F(), b.F()\n\n", v, i)
		default:
			fmt.Fprintf(&b, "var (\n\t%s = b.F()\n\torigVar%d int\n)\n\n", v, i)
		}
	}
	b.WriteString("//go:linkname origLinked other.origLinked\nfunc origLinked()\n\nfunc init() { panic(\"m:oinit\") }\n")
	return []string{b.String()}
}

func corpus(root string) int {
	var dirs []string
	filepath.Walk(root, func(p string, fi os.FileInfo, err error) error {
		if err == nil && fi.IsDir() {
			dirs = append(dirs, p)
		}
		return nil
	})
	sort.Strings(dirs)
	enc := json.NewEncoder(os.Stdout)
	for _, dir := range dirs {
		matches, _ := filepath.Glob(filepath.Join(dir, "*.go"))
		sort.Strings(matches)
		groups := map[string][]string{}
		for _, m := range matches {
			k := "lib"
			if strings.HasSuffix(m, "_test.go") {
				k = "test"
			}
			groups[k] = append(groups[k], m)
		}
		ip, _ := filepath.Rel(root, dir)
		for _, k := range []string{"lib", "test"} {
			if len(groups[k]) == 0 {
				continue
			}
			fset := token.NewFileSet()
			var srcs []string
			var files []*ast.File
			for _, m := range groups[k] {
				src, err := os.ReadFile(m)
				if err != nil {
					continue
				}
				f, err := parser.ParseFile(fset, m, src, parser.ParseComments)
				if err != nil {
					continue
				}
				srcs = append(srcs, string(src))
				files = append(files, f)
			}
			if len(files) == 0 {
				continue
			}
			enc.Encode(map[string]interface{}{"ip": filepath.ToSlash(ip), "ov": srcs, "orig": synthOriginal(fset, files), "tag": k})
		}
	}
	return 0
}
