// gvh_c12 — implementation side of the C12 check: runs the REAL overlay augmentation of
// /repo/build (through the verif hook build.VerifC12Augment) on (overlay, original) source pairs,
// projects inputs and results to the encoding of the Lean model and type-checks the merged package.
//
//	gvh_c12 pairs   stdin: one JSON object per line {"ip":importPath,"ov":[src…],"orig":[src…]}
//	                stdout: one JSON object per line (see type answer)
package main

import (
	"bufio"
	"bytes"
	"encoding/json"
	"fmt"
	"go/ast"
	"go/constant"
	"go/parser"
	"go/printer"
	"go/token"
	"go/types"
	"os"
	"path"
	"strconv"
	"strings"

	"github.com/gopherjs/gopherjs/build"
)

type request struct {
	IP   string   `json:"ip"`
	Ov   []string `json:"ov"`
	Orig []string `json:"orig"`
}

type answer struct {
	Error    string     `json:"error,omitempty"`
	In       string     `json:"in"`       // projected input: "<ip> <nOv> <nOrig> file*"
	Merge    string     `json:"merge"`    // canonical projected result + overrides table
	Entries  string     `json:"entries"`  // declared entries per result file
	Imports  string     `json:"imports"`  // surviving imports per result file
	NonLin   bool       `json:"nonlin"`   // a constant initialiser outside the a*iota+b grammar
	Odd      []string   `json:"odd"`      // shapes outside the model's stated assumptions
	ConstsA  string     `json:"consts_after"`
	ConstsB  string     `json:"consts_before"`
	TCOrig   string     `json:"tc_orig"`
	TCAfter  string     `json:"tc_after"`
	Summary  [][]string `json:"summary"`  // text-level description of every declared name, per result file
	Sources  []string   `json:"sources,omitempty"`
}

// ---------------------------------------------------------------------------------------------
// fake importer: every path resolves to a package named path.Base(path) with a few members

type fakeImporter struct{ pkgs map[string]*types.Package }

func (fi *fakeImporter) Import(p string) (*types.Package, error) {
	if p == "unsafe" {
		return types.Unsafe, nil
	}
	if pkg, ok := fi.pkgs[p]; ok {
		return pkg, nil
	}
	pkg := types.NewPackage(p, path.Base(p))
	sc := pkg.Scope()
	intT := types.Typ[types.Int]
	sc.Insert(types.NewVar(token.NoPos, pkg, "X", intT))
	sc.Insert(types.NewVar(token.NoPos, pkg, "DotX"+strings.ToUpper(path.Base(p)), intT))
	mk := func(name string, under types.Type) {
		tn := types.NewTypeName(token.NoPos, pkg, name, nil)
		types.NewNamed(tn, under, nil)
		sc.Insert(tn)
	}
	mk("T", types.NewStruct(nil, nil))
	mk("Mutex", types.NewStruct(nil, nil))
	mk("FS", types.NewStruct(nil, nil))
	res1 := types.NewTuple(types.NewVar(token.NoPos, pkg, "", intT))
	res2 := types.NewTuple(types.NewVar(token.NoPos, pkg, "", intT), types.NewVar(token.NoPos, pkg, "", intT))
	sc.Insert(types.NewFunc(token.NoPos, pkg, "F", types.NewSignatureType(nil, nil, nil, nil, res1, false)))
	sc.Insert(types.NewFunc(token.NoPos, pkg, "F2", types.NewSignatureType(nil, nil, nil, nil, res2, false)))
	pkg.MarkComplete()
	fi.pkgs[p] = pkg
	return pkg, nil
}

func typecheck(fset *token.FileSet, files []*ast.File) (string, *types.Info) {
	var first string
	n := 0
	info := &types.Info{Defs: map[*ast.Ident]types.Object{}, Uses: map[*ast.Ident]types.Object{}}
	// files are grouped by package clause (a natives directory may mix `foo` and `foo_test`)
	var order []string
	groups := map[string][]*ast.File{}
	for _, f := range files {
		if _, ok := groups[f.Name.Name]; !ok {
			order = append(order, f.Name.Name)
		}
		groups[f.Name.Name] = append(groups[f.Name.Name], f)
	}
	for _, name := range order {
		conf := types.Config{
			Importer: &fakeImporter{pkgs: map[string]*types.Package{}},
			Error: func(err error) {
				if n == 0 {
					msg := err.Error()
					if te, ok := err.(types.Error); ok {
						msg = te.Msg
					}
					first = msg
				}
				n++
			},
		}
		conf.Check(name, fset, groups[name], info)
	}
	if n == 0 {
		return "ok", info
	}
	return fmt.Sprintf("err(%d): %s", n, first), info
}

func constVal(info *types.Info, id *ast.Ident) string {
	if c, ok := info.Defs[id].(*types.Const); ok && c.Val() != nil && c.Val().Kind() != constant.Unknown {
		return c.Val().ExactString()
	}
	return "!"
}

// ---------------------------------------------------------------------------------------------

func nodeText(fset *token.FileSet, n ast.Node) string {
	var b bytes.Buffer
	printer.Fprint(&b, fset, n)
	return strings.Join(strings.Fields(b.String()), " ")
}

func bodyMarker(b *ast.BlockStmt) string {
	if b == nil {
		return "nobody"
	}
	m := "nomarker"
	ast.Inspect(b, func(n ast.Node) bool {
		if l, ok := n.(*ast.BasicLit); ok && l.Kind == token.STRING && strings.HasPrefix(l.Value, `"m:`) && m == "nomarker" {
			m, _ = strconv.Unquote(l.Value)
		}
		return true
	})
	return m
}

// summary describes, from the text of the merged AST only, every declared name of a file.
func summary(fset *token.FileSet, f *ast.File, after, before *types.Info) []string {
	out := []string{}
	for _, is := range f.Imports {
		name := ""
		if is.Name != nil {
			name = is.Name.Name + " "
		}
		out = append(out, "import "+name+is.Path.Value)
	}
	for _, d := range f.Decls {
		switch d := d.(type) {
		case *ast.FuncDecl:
			cp := *d
			cp.Doc = nil
			cp.Body = nil
			out = append(out, nodeText(fset, &cp)+" | "+bodyMarker(d.Body))
		case *ast.GenDecl:
			for _, sp := range d.Specs {
				switch s := sp.(type) {
				case *ast.TypeSpec:
					cp := *s
					cp.Doc, cp.Comment = nil, nil
					out = append(out, "type "+nodeText(fset, &cp))
				case *ast.ValueSpec:
					for k, n := range s.Names {
						if n.Name == "_" {
							continue
						}
						if d.Tok == token.CONST {
							out = append(out, "const "+n.Name+" = "+constVal(after, n))
							continue
						}
						init := ""
						if len(s.Names) == len(s.Values) {
							init = " = " + nodeText(fset, s.Values[k])
						} else if len(s.Values) == 1 {
							init = fmt.Sprintf(" = %s #%d", nodeText(fset, s.Values[0]), k)
						}
						typ := ""
						if s.Type != nil {
							typ = " " + nodeText(fset, s.Type)
						}
						out = append(out, "var "+n.Name+typ+init)
					}
				}
			}
		}
	}
	return out
}

func constIdents(files []*ast.File) []*ast.Ident {
	var res []*ast.Ident
	for _, f := range files {
		for _, d := range f.Decls {
			if g, ok := d.(*ast.GenDecl); ok && g.Tok == token.CONST {
				for _, sp := range g.Specs {
					if vs, ok := sp.(*ast.ValueSpec); ok {
						for _, n := range vs.Names {
							if n != nil && n.Name != "_" {
								res = append(res, n)
							}
						}
					}
				}
			}
		}
	}
	return res
}

func process(req request, withSources bool) (ans answer) {
	defer func() {
		if r := recover(); r != nil {
			ans.Error = fmt.Sprintf("panic: %v", r)
		}
	}()
	fset := token.NewFileSet()
	parse := func(prefix string, srcs []string) ([]*ast.File, error) {
		var fs []*ast.File
		for i, s := range srcs {
			f, err := parser.ParseFile(fset, fmt.Sprintf("%s%d.go", prefix, i), s, parser.ParseComments)
			if err != nil {
				return nil, err
			}
			fs = append(fs, f)
		}
		return fs, nil
	}
	ovs, err := parse("gopherjs__ov", req.Ov)
	if err != nil {
		ans.Error = "parse overlay: " + err.Error()
		return
	}
	origs, err := parse("orig", req.Orig)
	if err != nil {
		ans.Error = "parse original: " + err.Error()
		return
	}
	x := newIDs()
	for _, f := range ovs {
		x.assign(f)
	}
	for _, f := range origs {
		x.assign(f)
	}
	// constant values before the merge: each side type-checked on its own (errors of the overlay side,
	// which may refer to original names, do not matter for constant evaluation)
	var tcOrig string
	var beforeOrig, beforeOv *types.Info
	tcOrig, beforeOrig = typecheck(fset, origs)
	_, beforeOv = typecheck(fset, ovs)
	ans.TCOrig = tcOrig
	before := &types.Info{Defs: map[*ast.Ident]types.Object{}, Uses: map[*ast.Ident]types.Object{}}
	for _, inf := range []*types.Info{beforeOrig, beforeOv} {
		for k, v := range inf.Defs {
			before.Defs[k] = v
		}
		for k, v := range inf.Uses {
			before.Uses[k] = v
		}
	}

	p := &projector{x: x, uses: before.Uses, fset: fset}
	in := []string{req.IP, strconv.Itoa(len(ovs)), strconv.Itoa(len(origs))}
	for _, f := range ovs {
		p.file(f, &in)
	}
	for _, f := range origs {
		p.file(f, &in)
	}
	ans.In = strings.Join(in, " ")

	merged, table := build.VerifC12Augment(req.IP, ovs, origs)

	out := []string{strconv.Itoa(len(merged))}
	var ents, imps []string
	for _, f := range merged {
		p.file(f, &out)
		ents = append(ents, p.entries(f))
		imps = append(imps, importsLine(f))
	}
	out = append(out, "O", strconv.Itoa(len(table)))
	for _, t := range table {
		sig := "-"
		if t.OverrideSignature != nil {
			sig = strconv.Itoa(p.sigID(t.OverrideSignature))
		}
		out = append(out, fmt.Sprintf("%s:%s:%s:%s", t.Key, b01(t.KeepOriginal), b01(t.PurgeMethods), sig))
	}
	ans.Merge = strings.Join(out, " ")
	ans.Entries = strings.Join(ents, " | ")
	ans.Imports = strings.Join(imps, " | ")
	ans.NonLin = p.nonLin
	ans.Odd = p.odd

	tcAfter, after := typecheck(fset, merged)
	ans.TCAfter = tcAfter
	var ca, cb []string
	for _, id := range constIdents(merged) {
		ca = append(ca, id.Name+"="+constVal(after, id))
		cb = append(cb, id.Name+"="+constVal(before, id))
	}
	ans.ConstsA = dash(strings.Join(ca, " "))
	ans.ConstsB = dash(strings.Join(cb, " "))
	for _, f := range merged {
		ans.Summary = append(ans.Summary, summary(fset, f, after, before))
	}
	if withSources {
		for _, f := range merged {
			var b bytes.Buffer
			printer.Fprint(&b, fset, f)
			ans.Sources = append(ans.Sources, b.String())
		}
	}
	return
}

func dash(s string) string {
	if s == "" {
		return "-"
	}
	return s
}

func b01(b bool) string {
	if b {
		return "1"
	}
	return "0"
}

func main() {
	if len(os.Args) >= 3 && os.Args[1] == "callergen" {
		os.Exit(callergen(os.Args[2]))
	}
	if len(os.Args) >= 5 && os.Args[1] == "caller" {
		os.Exit(caller(os.Args[2], os.Args[3], os.Args[4]))
	}
	if len(os.Args) >= 3 && os.Args[1] == "corpus" {
		os.Exit(corpus(os.Args[2]))
	}
	if len(os.Args) < 2 || (os.Args[1] != "pairs" && os.Args[1] != "show") {
		fmt.Fprintln(os.Stderr, "usage: gvh_c12 pairs|show  < requests.jsonl")
		os.Exit(2)
	}
	in := bufio.NewReaderSize(os.Stdin, 1<<20)
	w := bufio.NewWriter(os.Stdout)
	defer w.Flush()
	dec := json.NewDecoder(in)
	enc := json.NewEncoder(w)
	for dec.More() {
		var req request
		if err := dec.Decode(&req); err != nil {
			fmt.Fprintln(os.Stderr, "bad request:", err)
			os.Exit(2)
		}
		enc.Encode(process(req, os.Args[1] == "show"))
	}
}
