// gvh_c01 — implementation side of the C01 check for the parts that need unexported compiler code
// (reached through the verif-tagged hook file /repo/compiler/verif_hooks_c16.go, which is only CALLED here).
//
//	gvh_c01 ops     line protocol on stdin, one answer line per op, against the REAL code of the repo:
//	    nm new <0|1>               fresh scope tree, root by newRootCtx -> ok
//	    nm child <p> <hexname>     nestedFunctionContext under scope p  -> <id> <hex funcRef>
//	    nm req <s> <hexname> <0|1> newVariable(name, pkgLevel) on s     -> <hex name>
//	    nm cnt <s> <hexname>       allVars[name] of scope s             -> <n>
//	    nm locals <s>              localVars of scope s                 -> comma list of hex
//	    nm kw                      reservedKeywords, sorted             -> comma list
//	    nm enc <hex>               encodeIdent                          -> <hex>
package main

import (
	"bufio"
	"encoding/hex"
	"fmt"
	"os"
	"strconv"
	"strings"

	"github.com/gopherjs/gopherjs/compiler"
)

func unhex(s string) ([]byte, bool) {
	if s == "-" {
		return []byte{}, true
	}
	b, err := hex.DecodeString(s)
	return b, err == nil
}

func hexs(b []byte) string {
	if len(b) == 0 {
		return "-"
	}
	return hex.EncodeToString(b)
}

var scopes *compiler.VerifC16Scopes

func answer(w []string) string {
	if len(w) < 2 || w[0] != "nm" {
		return "bad-op"
	}
	switch w[1] {
	case "new":
		if len(w) != 3 {
			return "bad-op"
		}
		scopes = compiler.VerifC16NewScopes(w[2] == "1")
		return "ok"
	case "kw":
		return strings.Join(compiler.VerifC16ReservedKeywords(), ",")
	case "enc":
		if len(w) != 3 {
			return "bad-op"
		}
		b, ok := unhex(w[2])
		if !ok {
			return "bad-op"
		}
		return hexs([]byte(compiler.VerifC16EncodeIdent(string(b))))
	}
	if scopes == nil || len(w) < 3 {
		return "bad-op"
	}
	s, err := strconv.Atoi(w[2])
	if err != nil || s < 0 || s >= scopes.Len() {
		return "bad-scope"
	}
	switch w[1] {
	case "child":
		if len(w) != 4 {
			return "bad-op"
		}
		name, ok := unhex(w[3])
		if !ok {
			return "bad-op"
		}
		id, ref, p := scopes.Child(s, string(name))
		if p != "" {
			return "panic"
		}
		return fmt.Sprintf("%d %s", id, hexs([]byte(ref)))
	case "req":
		if len(w) != 5 {
			return "bad-op"
		}
		name, ok := unhex(w[3])
		if !ok {
			return "bad-op"
		}
		r, p := scopes.NewVariable(s, string(name), w[4] == "1")
		if p != "" {
			return "panic"
		}
		return hexs([]byte(r))
	case "cnt":
		if len(w) != 4 {
			return "bad-op"
		}
		name, ok := unhex(w[3])
		if !ok {
			return "bad-op"
		}
		return strconv.Itoa(scopes.Count(s, string(name)))
	case "locals":
		var l []string
		for _, v := range scopes.LocalVars(s) {
			l = append(l, hexs([]byte(v)))
		}
		if len(l) == 0 {
			return "-"
		}
		return strings.Join(l, ",")
	}
	return "bad-op"
}

func main() {
	if len(os.Args) < 2 || os.Args[1] != "ops" {
		fmt.Fprintln(os.Stderr, "usage: gvh_c01 ops")
		os.Exit(2)
	}
	in := bufio.NewScanner(os.Stdin)
	in.Buffer(make([]byte, 1<<20), 1<<26)
	out := bufio.NewWriter(os.Stdout)
	defer out.Flush()
	for in.Scan() {
		fmt.Fprintln(out, answer(strings.Fields(in.Text())))
	}
}
